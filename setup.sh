#!/bin/bash
# Offline build of the simulator against /repo's working tree (hooks enabled), plus self-tests.
set -eu
cd "$(dirname "$0")"
export VERIF_ROOT="$(pwd)"
# the tree under test: /repo unless VERIF_REPO says otherwise (scratch worktrees for seeded changes)
REPO_UNDER_TEST="${VERIF_REPO:-/repo}"
ln -sfn "$REPO_UNDER_TEST" "$VERIF_ROOT/.repo"
# cargo decides staleness by mtime: a different tree behind the same symlink would not trigger a rebuild,
# so every tree gets its own build directories
if [ "$REPO_UNDER_TEST" = /repo ]; then SFX=""; else SFX="-$(printf %s "$REPO_UNDER_TEST" | md5sum | cut -c1-8)"; fi
export VERIF_TARGET="$VERIF_ROOT/target$SFX"
export VERIF_SHUTTLE_BIN="$VERIF_ROOT/target-shuttle$SFX/release/tfbshuttle"
export CARGO_NET_OFFLINE=true
export RUSTFLAGS="--cfg bigtools_verif"
( cd sim && CARGO_TARGET_DIR="$VERIF_TARGET" cargo build --release --offline --bins )
( export RUSTFLAGS="--cfg bigtools_verif --cfg bigtools_verif_shuttle"; cd tfbshuttle && CARGO_TARGET_DIR="$VERIF_ROOT/target-shuttle$SFX" cargo build --release --offline )
( export RUSTFLAGS="--cfg bigtools_verif"; cd .repo && CARGO_TARGET_DIR="$VERIF_TARGET" cargo build --offline -p bigtools --bin bigtools )
echo "setup ok"

#!/bin/bash
# Offline build of the simulator against /repo's working tree (hooks enabled), plus self-tests.
set -eu
cd "$(dirname "$0")"
export VERIF_ROOT="$(pwd)"
# the tree under test: /repo unless VERIF_REPO says otherwise (scratch worktrees for seeded changes)
ln -sfn "${VERIF_REPO:-/repo}" "$VERIF_ROOT/.repo"
export CARGO_NET_OFFLINE=true
export RUSTFLAGS="--cfg bigtools_verif"
( cd sim && CARGO_TARGET_DIR="$VERIF_ROOT/target" cargo build --release --offline --bins )
( export RUSTFLAGS="--cfg bigtools_verif --cfg bigtools_verif_shuttle"; cd tfbshuttle && CARGO_TARGET_DIR="$VERIF_ROOT/target-shuttle" cargo build --release --offline )
echo "setup ok"

fn main() {
    let path = std::env::args().nth(1).unwrap();
    let rf: bigsim::driver::ReplayFile = serde_json::from_str(&std::fs::read_to_string(path).unwrap()).unwrap();
    if let bigsim::props::AnyCase::Multi(mc) = rf.case {
        let r = bigsim::pipeprops::reference_of(&mc.base);
        let a = bigsim::pipesim::run_write(&r, true);
        let v = bigsim::pipeprops::apply_variant(&mc.base, &mc.variants[0]);
        let b = bigsim::pipesim::run_write(&v, true);
        println!("{:?} {:?} {} {}", a.result, b.result, a.image.len(), b.image.len());
        let diffs: Vec<usize> = a.image.iter().zip(&b.image).enumerate().filter(|(_, (x, y))| x != y).map(|(i, _)| i).collect();
        println!("ndiff {} first {:?} last {:?}", diffs.len(), diffs.first(), diffs.last());
        let da = bigsim::decode::decode(&a.image).unwrap();
        let db = bigsim::decode::decode(&b.image);
        println!("ref: data {}..{} index {} problems {:?}", da.full_data_offset, da.full_index_offset, da.full_index_offset, da.problems);
        for l in da.main_index.leaves.iter().take(60) { print!("({},{}+{}) ", l.sc, l.offset, l.size); }
        println!();
        match db { Ok(d) => { println!("var problems {:?}", d.problems.iter().take(3).collect::<Vec<_>>()); for l in d.main_index.leaves.iter().take(60) { print!("({},{}+{}) ", l.sc, l.offset, l.size); } println!(); }, Err(e) => println!("var undecodable {}", e) }
        println!("short writes {} ops {}", b.counts.short_writes, b.ops.len());
    }
}

use std::io::Write;
fn main() {
    let path = std::env::args().nth(1).unwrap();
    let rf: bigsim::driver::ReplayFile = serde_json::from_str(&std::fs::read_to_string(path).unwrap()).unwrap();
    let bigsim::props::AnyCase::Pipe(case) = rf.case;
    let s = bigsim::pipesim::build_stream(&case);
    let text = s.text(case.kind);
    println!("{:?}", text);
    let mut tmp = tempfile::NamedTempFile::new().unwrap();
    tmp.write_all(text.as_bytes()).unwrap(); tmp.flush().unwrap();
    let ix = bigtools::bed::indexer::index_chroms(std::fs::File::open(tmp.path()).unwrap());
    println!("index={:?}", ix);
    let out = bigsim::pipesim::run_write(&case, false);
    println!("{:?}", out.result);
}

use bigsim::model::*;
fn main() {
    for (zooms, multi) in [(vec![50u32,10], true), (vec![50,10], false), (vec![10,10], true), (vec![10,10], false), (vec![10,0], false), (vec![10, 0], true)] {
        let case = PipeCase { kind: Kind::Wig, chroms: vec![Chrom{name:"chr1".into(), len: 5000, items: (0..100).map(|i| Item::wig(i*20, i*20+7, 1.0+i as f32)).collect()}],
            extra_sizes: vec![], opts: Opts{manual_zooms: Some(zooms.clone()), inmemory: true, ..Opts::default()}, source: Source::SerialIter, multipass: multi, autosql: None, sched: Sched::Calm,
            sink: SinkFaults::default(), read: ReadFaults::default(), bad: None, mt_threads: 0 };
        if zooms.contains(&0) && multi { println!("{:?} multi={} skipped (would it hang?)", zooms, multi); 
            let (tx, rx) = std::sync::mpsc::channel();
            let c2 = case.clone();
            std::thread::spawn(move || { let out = bigsim::pipesim::run_write(&c2, false); let _ = tx.send(format!("{:?}", out.result)); });
            match rx.recv_timeout(std::time::Duration::from_secs(5)) { Ok(r) => println!("  returned {}", r), Err(_) => println!("  HANG (no return in 5 s)") }
            continue; }
        let out = bigsim::pipesim::run_write(&case, false);
        let v7 = bigsim::checks::check_zooms(&case, &out);
        println!("{:?} multi={} result={:?} zoomcheck={:?}", zooms, multi, out.result, v7);
    }
    std::process::exit(0);
}

fn main() {
    for idx in 0..60u64 {
        let case = bigsim::props::gen_case("C11", 20261003, idx, "quick");
        match case {
            bigsim::props::AnyCase::Multi(m) => println!("{} multi mt={:?}", idx, m.variants.iter().map(|v| v.mt_threads).collect::<Vec<_>>()),
            bigsim::props::AnyCase::Conv(_) => println!("{} conv", idx),
            _ => {}
        }
    }
}

fn main() {
    let prop = std::env::args().nth(1).unwrap();
    let idx: u64 = std::env::args().nth(2).unwrap().parse().unwrap();
    let case = bigsim::props::gen_case(&prop, 20261003, idx, "quick");
    if let bigsim::props::AnyCase::Pipe(pc) = &case {
        let mut prev: Option<Vec<u16>> = None;
        for k in 0..3 {
            let out = bigsim::pipesim::run_write(pc, false);
            println!("{} {:?} steps={} trace={:x} sites={:?}", k, out.result, out.steps, out.trace_hash, out.sites);
            if let Some(p) = &prev { if *p != out.trace { let d = p.iter().zip(&out.trace).position(|(a,b)| a!=b); println!("trace differs at {:?} {:?} {:?}", d, &p[..20.min(p.len())], &out.trace[..20.min(out.trace.len())]); } }
            prev = Some(out.trace);
        }
        println!("{:?} {:?} {:?}", pc.sched, pc.source, pc.bad);
    }
}

//! Driver: forks worker processes, watches them (stall watchdog, address-space cap), aggregates,
//! applies the known-findings filter, confirms violations by fresh-process replay and writes evidence.

use std::collections::{BTreeMap, HashSet};
use std::io::{BufRead, BufReader, Write};
use std::path::PathBuf;
use std::process::{Child, Command, Stdio};
use std::sync::mpsc;
use std::time::{Duration, Instant};

use serde::{Deserialize, Serialize};

use crate::checks::Verdict;
use crate::props::{self, AnyCase};
use crate::report::{Aggregate, ViolationRec};

pub fn root() -> PathBuf {
    PathBuf::from(std::env::var("VERIF_ROOT").unwrap_or_else(|_| "/verif".to_string()))
}

pub fn default_seed() -> u64 {
    std::env::var("VERIF_SEED")
        .ok()
        .and_then(|s| s.trim().parse::<u64>().ok())
        .unwrap_or(20261003)
}

#[derive(Clone, Debug, Serialize, Deserialize)]
pub struct Finding {
    pub id: String,
    pub status: String,
    pub properties: Vec<String>,
    pub class: String,
    pub what: String,
}

#[derive(Clone, Debug, Default, Serialize, Deserialize)]
pub struct KnownFindings {
    #[serde(default)]
    pub findings: Vec<Finding>,
    #[serde(default)]
    pub fixed: Vec<String>,
}

pub fn load_known() -> KnownFindings {
    let p = root().join("known_findings.json");
    match std::fs::read_to_string(&p) {
        Ok(s) => serde_json::from_str(&s).unwrap_or_else(|e| {
            eprintln!("HARNESS-ERROR: cannot parse {}: {}", p.display(), e);
            std::process::exit(2);
        }),
        Err(_) => KnownFindings::default(),
    }
}

impl KnownFindings {
    pub fn matches(&self, prop: &str, class: &str) -> Option<&Finding> {
        // the same finding observed on real threads carries the suffix "-uncontrolled"
        let class = class.trim_end_matches("-uncontrolled");
        self.findings
            .iter()
            .find(|f| f.status == "open" && f.class == class && f.properties.iter().any(|p| p == prop))
    }
}

#[derive(Clone, Debug, Serialize, Deserialize)]
pub struct ReplayFile {
    pub property: String,
    pub seed: u64,
    pub run: u64,
    pub class: String,
    pub detail: String,
    pub minimised: bool,
    pub schedule_controlled: bool,
    pub case: AnyCase,
}

pub fn write_replay(rf: &ReplayFile) -> String {
    let dir = root().join("replays");
    let _ = std::fs::create_dir_all(&dir);
    let path = dir.join(format!("{}-{}-{}.json", rf.property, rf.seed, rf.run));
    let mut f = std::fs::File::create(&path).expect("create replay file");
    f.write_all(serde_json::to_string_pretty(rf).unwrap().as_bytes())
        .expect("write replay");
    path.to_string_lossy().to_string()
}

fn quiet_panics() {
    std::panic::set_hook(Box::new(|_| {}));
}

/// Resident-memory guard: RLIMIT_AS counts address space (reservations that are never touched, allocator arenas),
/// which says nothing about real memory use; only the autoSql parser check keeps a (1 GiB) address-space cap. Every
/// worker and replay process additionally watches its own resident set and aborts beyond `limit` bytes, which the
/// driver reports as a crash of the run in progress.
pub fn spawn_rss_guard(limit: u64) {
    std::thread::spawn(move || loop {
        std::thread::sleep(Duration::from_millis(100));
        if let Ok(s) = std::fs::read_to_string("/proc/self/statm") {
            if let Some(res) = s.split_whitespace().nth(1).and_then(|x| x.parse::<u64>().ok()) {
                if res * 4096 > limit {
                    eprintln!("resident set {} bytes exceeds the guard {}", res * 4096, limit);
                    unsafe { libc::abort() };
                }
            }
        }
    });
}

pub fn set_mem_cap(bytes: u64) {
    unsafe {
        let lim = libc::rlimit {
            rlim_cur: bytes,
            rlim_max: bytes,
        };
        libc::setrlimit(libc::RLIMIT_AS, &lim);
    }
}

/// Same violation class?
fn fails_with(prop: &str, case: &AnyCase, class: &str) -> bool {
    matches!(props::run_case(prop, case).verdict, Verdict::Violation { class: c, .. } if c == class)
}

pub fn minimise(prop: &str, case: &AnyCase, class: &str, mut budget: usize) -> AnyCase {
    // Greedy delta debugging over the candidate list: after a successful step the scan continues at the
    // same candidate index of the new (smaller) case, which makes chunk removal behave like ddmin.
    let mut cur = case.clone();
    let mut i = 0usize;
    let mut improved_in_pass = false;
    let started = Instant::now();
    let mut evals = 0u64;
    loop {
        // heartbeat for the driver's stall watchdog, and a wall-clock bound on minimisation
        evals += 1;
        if evals % 20 == 0 {
            let mut o = std::io::stdout().lock();
            let _ = writeln!(o, "M {}", evals);
            let _ = o.flush();
        }
        if started.elapsed() > Duration::from_secs(120) {
            return cur;
        }
        let cands = props::shrink(&cur);
        if i >= cands.len() {
            if !improved_in_pass {
                return cur;
            }
            i = 0;
            improved_in_pass = false;
            continue;
        }
        if budget == 0 {
            return cur;
        }
        budget -= 1;
        if fails_with(prop, &cands[i], class) {
            cur = cands[i].clone();
            improved_in_pass = true;
        } else {
            i += 1;
        }
    }
}

/// Worker process body: runs indices from, from+stride, ... < to.
pub fn worker(prop: &str, seed: u64, tier: &str, from: u64, to: u64, stride: u64, mem_cap: u64, log_outcomes: bool) {
    quiet_panics();
    IN_WORKER.store(true, std::sync::atomic::Ordering::Relaxed);
    if mem_cap > 0 {
        set_mem_cap(mem_cap);
    }
    spawn_rss_guard(3 << 30);
    // sampling rate of the Python decoder (C09): every 40th image in quick, every 8th in thorough
    if std::env::var("VERIF_PY_RATE").is_err() {
        std::env::set_var("VERIF_PY_RATE", if tier == "thorough" { "8" } else { "40" });
    }
    let known = load_known();
    let stdout = std::io::stdout();
    let mut agg = Aggregate::default();
    let mut idx = from;
    let mut nontrivial: HashSet<u64> = HashSet::new();
    let mut traces: HashSet<u64> = HashSet::new();
    while idx < to {
        {
            let mut o = stdout.lock();
            let _ = writeln!(o, "S {}", idx);
            let _ = o.flush();
        }
        let case = props::gen_case(prop, seed, idx, tier);
        let rep = match std::panic::catch_unwind(std::panic::AssertUnwindSafe(|| props::run_case(prop, &case))) {
            Ok(r) => r,
            Err(p) => {
                let mut o = stdout.lock();
                let _ = writeln!(o, "H {} harness panic: {}", idx, crate::pipesim::panic_message(p));
                let _ = o.flush();
                std::process::exit(2);
            }
        };
        if log_outcomes {
            let v = match &rep.verdict {
                Verdict::Pass => "pass".to_string(),
                Verdict::Skip(r) => format!("skip:{}", r),
                Verdict::Violation { class, detail } => format!("viol:{}:{}", class, detail),
            };
            let mut h = crate::rng::hash_bytes(v.as_bytes());
            if !rep.stats.uncontrolled {
            h = crate::rng::mix(h, rep.stats.trace_hash);
            h = crate::rng::mix(h, rep.stats.steps);
            h = crate::rng::mix(h, rep.stats.sink_ops);
            h = crate::rng::mix(h, rep.stats.outcome_hash);
            h = crate::rng::mix(h, crate::rng::hash_bytes(format!(
                "{:?}{:?}{:?}",
                rep.stats.faults,
                rep.stats.probes,
                rep.stats.counters.iter().filter(|(k, _)| !k.starts_with("uncontrolled")).collect::<Vec<_>>()
            ).as_bytes()));
            }
            h = crate::rng::mix(h, rep.stats.outcome_hash);
            h = crate::rng::mix(h, props::case_hash(&case));
            let mut o = stdout.lock();
            let _ = writeln!(o, "T {} {:016x}", idx, h);
        }
        agg.evaluations += 1;
        agg.steps += rep.stats.steps;
        agg.nonzero_decisions += rep.stats.nonzero_decisions;
        agg.sink_ops += rep.stats.sink_ops;
        for (k, v) in &rep.stats.faults {
            *agg.faults.entry(k.clone()).or_insert(0) += v;
        }
        for (k, v) in &rep.stats.probes {
            *agg.probes.entry(k.clone()).or_insert(0) += v;
        }
        for (k, v) in &rep.stats.counters {
            *agg.counters.entry(k.clone()).or_insert(0) += v;
        }
        for c in &rep.stats.classes {
            if !agg.classes.contains(c) {
                agg.classes.push(c.clone());
            }
        }
        if rep.stats.steps > 0 {
            traces.insert(rep.stats.trace_hash);
        }
        match &rep.verdict {
            Verdict::Pass => {
                agg.passed += 1;
                if rep.nontrivial {
                    nontrivial.insert(props::case_hash(&case));
                }
                if agg.samples.len() < 3 && (rep.nontrivial || idx >= from + 20 * stride) {
                    let v = serde_json::to_value(&case).unwrap();
                    // keep samples readable
                    if serde_json::to_string(&v).map(|s| s.len()).unwrap_or(0) < 6000 {
                        agg.samples.push(v);
                    }
                }
            }
            Verdict::Skip(r) => {
                agg.skipped += 1;
                let key: String = r.chars().take(60).collect();
                *agg.skip_reasons.entry(key).or_insert(0) += 1;
            }
            Verdict::Violation { class, detail } => {
                if let Some(f) = known.matches(prop, class) {
                    let e = agg.known.entry(f.id.clone()).or_insert((0, detail.clone()));
                    e.0 += 1;
                } else {
                    // minimise, write the replay file, report, stop this worker
                    let explicit = props::explicit_schedule(prop, &case);
                    let start = if fails_with(prop, &explicit, class) { explicit } else { case.clone() };
                    let min = minimise(prop, &start, class, 3000);
                    let detail2 = match props::run_case(prop, &min).verdict {
                        Verdict::Violation { detail, .. } => detail,
                        _ => detail.clone(),
                    };
                    let path = write_replay(&ReplayFile {
                        property: prop.to_string(),
                        seed,
                        run: idx,
                        class: class.clone(),
                        detail: detail2.clone(),
                        minimised: true,
                        schedule_controlled: !class.ends_with("uncontrolled"),
                        case: min,
                    });
                    agg.violations.push(ViolationRec {
                        run: idx,
                        class: class.clone(),
                        detail: detail2,
                        replay: path,
                    });
                    break;
                }
            }
        }
        idx += stride;
    }
    agg.nontrivial_hashes = nontrivial.into_iter().collect();
    agg.trace_hashes = traces.into_iter().collect();
    let mut o = stdout.lock();
    let _ = writeln!(o, "A {}", serde_json::to_string(&agg).unwrap());
    let _ = o.flush();
}

enum Ev {
    Line(usize, String),
    Eof(usize),
    Tick,
}

pub struct CheckOpts {
    pub prop: String,
    pub tier: String,
    pub runs: Option<u64>,
    pub workers: usize,
    pub seed: u64,
    pub stall_secs: u64,
    pub mem_cap: u64,
}

fn kill(child: &mut Child) {
    let _ = child.kill();
    let _ = child.wait();
}

/// Runs `sim replay-inner <file>` in a fresh process with a timeout.
/// Returns (reproduced, description).
pub fn replay_fresh(path: &str, timeout: Duration, mem_cap: u64) -> (bool, String) {
    let exe = std::env::current_exe().expect("current_exe");
    let mut child = Command::new(exe)
        .arg("replay-inner")
        .arg(path)
        .arg("--mem-cap")
        .arg(mem_cap.to_string())
        .stdout(Stdio::piped())
        .stderr(Stdio::null())
        .spawn()
        .expect("spawn replay");
    let start = Instant::now();
    loop {
        match child.try_wait() {
            Ok(Some(status)) => {
                let mut out = String::new();
                if let Some(mut o) = child.stdout.take() {
                    use std::io::Read;
                    let _ = o.read_to_string(&mut out);
                }
                let last = out.lines().last().unwrap_or("").to_string();
                if let Some(code) = status.code() {
                    return (code == 1, last);
                }
                return (
                    last_was_expected_crash(path),
                    format!("replay process died: {:?} {}", status, last),
                );
            }
            Ok(None) => {
                if start.elapsed() > timeout {
                    kill(&mut child);
                    return (last_was_expected_hang(path), "replay timed out (hang)".to_string());
                }
                std::thread::sleep(Duration::from_millis(20));
            }
            Err(e) => return (false, format!("wait error {}", e)),
        }
    }
}

fn read_replay(path: &str) -> Option<ReplayFile> {
    serde_json::from_str(&std::fs::read_to_string(path).ok()?).ok()
}
fn last_was_expected_hang(path: &str) -> bool {
    read_replay(path).map(|r| r.class == "hang").unwrap_or(false)
}
fn last_was_expected_crash(path: &str) -> bool {
    read_replay(path).map(|r| r.class == "crash").unwrap_or(false)
}

/// Body of `sim replay-inner`: exit 1 iff the recorded violation class is reproduced.
pub fn replay_inner(path: &str, mem_cap: u64) -> i32 {
    quiet_panics();
    if mem_cap > 0 {
        set_mem_cap(mem_cap);
    }
    spawn_rss_guard(3 << 30);
    let rf = match read_replay(path) {
        Some(r) => r,
        None => {
            println!("HARNESS-ERROR: cannot read replay file {}", path);
            return 2;
        }
    };
    let rep = props::run_case(&rf.property, &rf.case);
    match rep.verdict {
        Verdict::Violation { class, detail } => {
            if class == rf.class {
                println!("reproduced class={} detail={}", class, detail);
                1
            } else {
                println!("different violation class={} (recorded {}) detail={}", class, rf.class, detail);
                3
            }
        }
        Verdict::Pass => {
            println!("passes");
            0
        }
        Verdict::Skip(r) => {
            println!("skipped: {}", r);
            0
        }
    }
}

pub fn check(opts: &CheckOpts) -> i32 {
    let t0 = Instant::now();
    let prop = opts.prop.as_str();
    let known = load_known();
    let b = props::budget(prop);
    let total = opts
        .runs
        .unwrap_or(if opts.tier == "thorough" { b.thorough_runs } else { b.quick_runs });
    let nworkers = opts.workers.max(1).min(total.max(1) as usize);
    println!(
        "check property={} tier={} VERIF_SEED={} runs={} workers={}",
        prop, opts.tier, opts.seed, total, nworkers
    );
    let mut determinism_mismatches: Option<u64> = None;
    let mut determinism_runs = 0u64;
    if opts.tier == "thorough" {
        determinism_runs = 240;
        determinism_mismatches = determinism_count(prop, opts.seed, determinism_runs);
    }
    let exe = std::env::current_exe().expect("current_exe");
    let (tx, rx) = mpsc::channel::<Ev>();
    let mut children: Vec<Option<Child>> = vec![];
    for w in 0..nworkers {
        let mut child = Command::new(&exe)
            .arg("worker")
            .arg(prop)
            .arg("--seed")
            .arg(opts.seed.to_string())
            .arg("--tier")
            .arg(&opts.tier)
            .arg("--from")
            .arg(w.to_string())
            .arg("--to")
            .arg(total.to_string())
            .arg("--stride")
            .arg(nworkers.to_string())
            .arg("--mem-cap")
            .arg(opts.mem_cap.to_string())
            .stdout(Stdio::piped())
            .stderr(Stdio::null())
            .spawn()
            .expect("spawn worker");
        let out = child.stdout.take().unwrap();
        let tx2 = tx.clone();
        std::thread::spawn(move || {
            let rd = BufReader::new(out);
            for line in rd.lines() {
                match line {
                    Ok(l) => {
                        if tx2.send(Ev::Line(w, l)).is_err() {
                            return;
                        }
                    }
                    Err(_) => break,
                }
            }
            let _ = tx2.send(Ev::Eof(w));
        });
        children.push(Some(child));
    }
    {
        let tx2 = tx.clone();
        std::thread::spawn(move || loop {
            std::thread::sleep(Duration::from_millis(500));
            if tx2.send(Ev::Tick).is_err() {
                return;
            }
        });
    }
    let mut agg = Aggregate::default();
    let mut current: Vec<Option<u64>> = vec![None; nworkers];
    let mut last_progress: Vec<Instant> = vec![Instant::now(); nworkers];
    let mut done: Vec<bool> = vec![false; nworkers];
    let mut got_agg: Vec<bool> = vec![false; nworkers];
    let mut harness_errors: Vec<String> = vec![];
    let mut resource_violations: Vec<(u64, String, String)> = vec![]; // (run, class, detail)
    while done.iter().any(|d| !d) {
        match rx.recv_timeout(Duration::from_secs(5)) {
            Ok(Ev::Line(w, l)) => {
                last_progress[w] = Instant::now();
                if let Some(rest) = l.strip_prefix("S ") {
                    current[w] = rest.trim().parse().ok();
                } else if let Some(rest) = l.strip_prefix("A ") {
                    match serde_json::from_str::<Aggregate>(rest) {
                        Ok(a) => {
                            agg.merge(a);
                            got_agg[w] = true;
                        }
                        Err(e) => harness_errors.push(format!("worker {} aggregate unparsable: {}", w, e)),
                    }
                } else if let Some(rest) = l.strip_prefix("H ") {
                    harness_errors.push(format!("worker {}: {}", w, rest));
                }
            }
            Ok(Ev::Eof(w)) => {
                if let Some(mut c) = children[w].take() {
                    let status = c.wait().ok();
                    if !got_agg[w] {
                        let desc = format!("{:?}", status);
                        match (current[w], status.and_then(|s| s.code())) {
                            (_, Some(2)) => harness_errors.push(format!("worker {} exited 2", w)),
                            (Some(run), None) => {
                                // killed by a signal inside a run (allocation failure aborts, stack overflow, ...)
                                resource_violations.push((run, "crash".into(), format!("worker died in run {}: {}", run, desc)));
                            }
                            (run, _) => harness_errors.push(format!("worker {} died outside a run ({:?}): {}", w, run, desc)),
                        }
                    }
                }
                done[w] = true;
            }
            Ok(Ev::Tick) | Err(mpsc::RecvTimeoutError::Timeout) => {
                for w in 0..nworkers {
                    if !done[w] && last_progress[w].elapsed() > Duration::from_secs(opts.stall_secs) {
                        if let Some(c) = children[w].as_mut() {
                            let _ = c.kill();
                        }
                        if let Some(run) = current[w] {
                            resource_violations.push((
                                run,
                                "hang".into(),
                                format!("no progress for {} s in run {}", opts.stall_secs, run),
                            ));
                        } else {
                            harness_errors.push(format!("worker {} stalled before its first run", w));
                        }
                        got_agg[w] = true; // suppress the death report
                        last_progress[w] = Instant::now();
                    }
                }
            }
            Err(mpsc::RecvTimeoutError::Disconnected) => break,
        }
    }
    // hangs / crashes: the driver regenerates the case (generation is a pure function of seed and run index)
    // (every worker that meets a hang is killed with it, so there can be one per worker: the first two are minimised,
    // 20 s to 3 min each; the others are reported as generated)
    let mut minimised_resource = 0usize;
    let mut kept_resource = 0usize;
    for (run, class, detail) in resource_violations {
        if known.matches(prop, &class).is_none() {
            kept_resource += 1;
            if kept_resource > 3 {
                // confirming a hang costs a full watchdog period per replay: three are enough to report
                *agg.counters.entry("further_hang_or_crash_runs_not_replayed".into()).or_insert(0) += 1;
                continue;
            }
        }
        let case = props::gen_case(prop, opts.seed, run, &opts.tier);
        let mut was_minimised = false;
        let case = if known.matches(prop, &class).is_none() && minimised_resource < 2 {
            minimised_resource += 1;
            was_minimised = true;
            minimise_external(prop, opts.seed, run, &case, &class, opts.mem_cap)
        } else {
            case
        };
        if let Some(f) = known.matches(prop, &class) {
            let e = agg.known.entry(f.id.clone()).or_insert((0, detail.clone()));
            e.0 += 1;
            continue;
        }
        let path = write_replay(&ReplayFile {
            property: prop.to_string(),
            seed: opts.seed,
            run,
            class: class.clone(),
            detail: detail.clone(),
            minimised: was_minimised,
            schedule_controlled: true,
            case,
        });
        agg.violations.push(ViolationRec {
            run,
            class,
            detail,
            replay: path,
        });
    }

    // confirm every violation by replaying its file in a fresh process
    let mut confirmed: Vec<ViolationRec> = vec![];
    for v in &agg.violations {
        let uncontrolled = v.class.ends_with("uncontrolled");
        let mut ok = false;
        let mut desc = String::new();
        for _ in 0..(if uncontrolled { 5 } else { 1 }) {
            let (o, d) = replay_fresh(&v.replay, Duration::from_secs(opts.stall_secs.min(60)), opts.mem_cap);
            ok = o;
            desc = d;
            if ok {
                break;
            }
        }
        if !ok && desc.starts_with("different violation class=") {
            // the fresh-process replay violates the property too, but in another way than recorded (typically a
            // stall under load that is really a wrong result): re-label the replay file with what the replay shows
            if let Some(mut rf) = read_replay(&v.replay) {
                let new_class = desc["different violation class=".len()..].split_whitespace().next().unwrap_or("").to_string();
                if !new_class.is_empty() && known.matches(prop, &new_class).is_none() {
                    rf.class = new_class.clone();
                    rf.detail = desc.clone();
                    let _ = std::fs::write(&v.replay, serde_json::to_string_pretty(&rf).unwrap());
                    let (o2, _d2) = replay_fresh(&v.replay, Duration::from_secs(opts.stall_secs.min(60)), opts.mem_cap);
                    if o2 {
                        let mut v2 = v.clone();
                        v2.class = new_class;
                        v2.detail = desc.clone();
                        confirmed.push(v2);
                        continue;
                    }
                }
            }
        }
        if ok {
            confirmed.push(v.clone());
        } else if uncontrolled {
            // real threads: the oracle (equality with the deterministic reference) is schedule-independent, so the
            // violation is real even though this schedule cannot be replayed exactly
            println!(
                "note: violation in run {} (class {}) was observed on real threads and did not recur in 5 replays of {}",
                v.run, v.class, v.replay
            );
            confirmed.push(v.clone());
        } else {
            harness_errors.push(format!(
                "violation in run {} (class {}) did not reproduce from {}: {}",
                v.run, v.class, v.replay, desc
            ));
        }
    }

    if opts.tier == "thorough" && determinism_mismatches != Some(0) {
        harness_errors.push(format!("determinism self-test: {:?} mismatching runs of {}", determinism_mismatches, determinism_runs));
    }
    for (k, n) in &agg.skip_reasons {
        if k.starts_with("HARNESS") {
            harness_errors.push(format!("{} ({} runs)", k, n));
        }
    }
    let wall = t0.elapsed().as_secs_f64();
    let distinct: HashSet<u64> = agg.nontrivial_hashes.iter().copied().collect();
    let distinct_traces: HashSet<u64> = agg.trace_hashes.iter().copied().collect();
    let runs_per_hour = if wall > 0.0 { agg.evaluations as f64 / wall * 3600.0 } else { 0.0 };
    let spec = crate::evidence::spec(prop);
    let mut known_seen = vec![];
    for (id, (n, ex)) in &agg.known {
        let what = known
            .findings
            .iter()
            .find(|f| &f.id == id)
            .map(|f| f.what.clone())
            .unwrap_or_default();
        println!("KNOWN-FINDING: property={} {} [{}; seen {} times, e.g. {}]", prop, what, id, n, ex);
        known_seen.push(serde_json::json!({"id": id, "count": n, "example": ex}));
    }
    let ev = serde_json::json!({
        "property_id": prop,
        "tier": opts.tier,
        "seed": opts.seed,
        "level": props::level(prop),
        "coverage": {
            "evaluations": agg.evaluations,
            "distinct_nontrivial": distinct.len(),
            "rule": spec.rule,
            "samples": agg.samples,
            "exhaustive": false,
            "passed": agg.passed,
            "skipped": agg.skipped,
            "skip_reasons": agg.skip_reasons,
            "runs_per_hour": runs_per_hour as u64,
            "seeds": format!("VERIF_SEED={} x run indices 0..{}", opts.seed, total),
            "simulated_time": "logical only (bigtools has no clock): scheduler_steps + sink_ops",
            "scheduler_steps": agg.steps,
            "nonzero_scheduler_decisions": agg.nonzero_decisions,
            "sink_ops": agg.sink_ops,
            "distinct_schedule_traces": distinct_traces.len(),
            "faults_fired": agg.faults,
            "probes": agg.probes,
            "counters": agg.counters,
            "classes_reached": agg.classes,
            "components_real": spec.real,
            "components_stub": spec.stub,
            "schedule_controlled": true,
            "determinism_selftest": {"runs": determinism_runs, "executions": if determinism_runs > 0 { 3 } else { 0 }, "mismatches": determinism_mismatches},
            "known_findings_seen": known_seen,
            "harness_errors": harness_errors,
        },
        "assumptions": spec.assumptions,
        "wall_s": wall,
        "violations": confirmed.len(),
    });
    // runs against a scratch tree (VERIF_REPO) must not overwrite the evidence of the tree under /repo
    let evdir = match std::env::var("VERIF_EVIDENCE_DIR") {
        Ok(d) if !d.is_empty() => std::path::PathBuf::from(d),
        _ => root().join("evidence"),
    };
    let _ = std::fs::create_dir_all(&evdir);
    let evpath = evdir.join(format!("{}.json", prop));
    if let Err(e) = std::fs::write(&evpath, serde_json::to_string_pretty(&ev).unwrap()) {
        println!("HARNESS-ERROR: cannot write {}: {}", evpath.display(), e);
        return 2;
    }
    println!(
        "evaluations={} passed={} skipped={} distinct_nontrivial={} traces={} wall={:.1}s",
        agg.evaluations,
        agg.passed,
        agg.skipped,
        distinct.len(),
        distinct_traces.len(),
        wall
    );
    if !confirmed.is_empty() {
        let mut seen: BTreeMap<String, ()> = BTreeMap::new();
        for v in &confirmed {
            if seen.insert(v.class.clone(), ()).is_none() {
                println!("violation class={} run={} detail={}", v.class, v.run, v.detail);
                println!("VIOLATION property={} replay={}", prop, v.replay);
            }
        }
        return 1;
    }
    if !harness_errors.is_empty() {
        for h in &harness_errors {
            println!("HARNESS-ERROR: {}", h);
        }
        return 2;
    }
    if agg.evaluations == 0 {
        println!("HARNESS-ERROR: no run was executed");
        return 2;
    }
    println!("OK property={}", prop);
    0
}

/// `sim replay <file>`: fresh-process replay with a watchdog; exit 1 + VIOLATION line if it reproduces.
pub fn replay(path: &str, mem_cap: u64) -> i32 {
    let rf = match read_replay(path) {
        Some(r) => r,
        None => {
            println!("HARNESS-ERROR: cannot read replay file {}", path);
            return 2;
        }
    };
    let (ok, desc) = replay_fresh(path, Duration::from_secs(60), mem_cap);
    println!("{}", desc);
    if ok {
        println!("VIOLATION property={} replay={}", rf.property, path);
        1
    } else {
        println!("replay of {} does not violate property {}", path, rf.property);
        0
    }
}

/// Called by engines from inside long runs (C14's enumeration loops): a line on the worker's pipe, at most one per
/// second, so that the stall watchdog sees progress between sub-evaluations. A stall inside one sub-evaluation is
/// still a stall. Outside a worker process (replay) it prints nothing.
pub fn heartbeat() {
    use std::sync::atomic::{AtomicU64, Ordering};
    static LAST: AtomicU64 = AtomicU64::new(0);
    if !IN_WORKER.load(Ordering::Relaxed) {
        return;
    }
    let now = std::time::SystemTime::now().duration_since(std::time::UNIX_EPOCH).map(|d| d.as_secs()).unwrap_or(0);
    if LAST.swap(now, Ordering::Relaxed) != now {
        let o = std::io::stdout();
        let mut o = o.lock();
        let _ = writeln!(o, "M hb");
        let _ = o.flush();
    }
}
pub static IN_WORKER: std::sync::atomic::AtomicBool = std::sync::atomic::AtomicBool::new(false);

/// Determinism self-test: the same run indices executed twice, in different processes and with different
/// worker counts, must give identical per-run outcome hashes (workload, schedule trace, sink image,
/// fault/probe counters, verdict).
pub fn determinism(prop: &str, seed: u64, runs: u64) -> i32 {
    match determinism_count(prop, seed, runs) {
        Some(0) => 0,
        _ => 2,
    }
}

/// Returns the number of mismatching runs (None = harness trouble).
pub fn determinism_count(prop: &str, seed: u64, runs: u64) -> Option<u64> {
    let exe = std::env::current_exe().expect("current_exe");
    let collect = |workers: u64| -> Result<BTreeMap<u64, String>, String> {
        let mut children = vec![];
        for w in 0..workers {
            let child = Command::new(&exe)
                .arg("worker")
                .arg(prop)
                .arg("--seed")
                .arg(seed.to_string())
                .arg("--tier")
                .arg("quick")
                .arg("--from")
                .arg(w.to_string())
                .arg("--to")
                .arg(runs.to_string())
                .arg("--stride")
                .arg(workers.to_string())
                .arg("--log-outcomes")
                .arg("1")
                .stdout(Stdio::piped())
                .stderr(Stdio::null())
                .spawn()
                .map_err(|e| e.to_string())?;
            children.push(child);
        }
        let mut map = BTreeMap::new();
        for c in children {
            let out = c.wait_with_output().map_err(|e| e.to_string())?;
            for line in String::from_utf8_lossy(&out.stdout).lines() {
                if let Some(rest) = line.strip_prefix("T ") {
                    let mut it = rest.split_whitespace();
                    if let (Some(i), Some(h)) = (it.next(), it.next()) {
                        map.insert(i.parse::<u64>().unwrap_or(u64::MAX), h.to_string());
                    }
                }
            }
        }
        Ok(map)
    };
    let a = match collect(1.max(runs.min(3))) {
        Ok(m) => m,
        Err(e) => {
            println!("HARNESS-ERROR: {}", e);
            return None;
        }
    };
    let b = match collect(16) {
        Ok(m) => m,
        Err(e) => {
            println!("HARNESS-ERROR: {}", e);
            return None;
        }
    };
    let c = collect(5).unwrap_or_default();
    let mut mismatches = 0;
    for (i, h) in &a {
        if b.get(i) != Some(h) || c.get(i) != Some(h) {
            mismatches += 1;
            if mismatches <= 5 {
                println!("run {} differs: {} vs {:?} vs {:?}", i, h, b.get(i), c.get(i));
            }
        }
    }
    println!(
        "determinism property={} seed={} runs={} executions=3 (3, 16 and 5 worker processes) mismatches={}",
        prop,
        seed,
        a.len(),
        mismatches
    );
    if a.is_empty() {
        println!("HARNESS-ERROR: no outcomes collected");
        return None;
    }
    Some(mismatches)
}

/// Minimisation of a hang / crash: candidates are executed in fresh processes under a watchdog (a worker cannot
/// shrink a case that kills or stalls it). Greedy over the engine's shrink candidates, 16 candidates at a time.
pub fn minimise_external(prop: &str, seed: u64, run: u64, case: &AnyCase, class: &str, mem_cap: u64) -> AnyCase {
    let dir = match tempfile::tempdir() {
        Ok(d) => d,
        Err(_) => return case.clone(),
    };
    let timeout = Duration::from_secs(if class == "hang" { 8 } else { 30 });
    let mut cur = case.clone();
    let mut budget = 320usize;
    let mut start = 0usize;
    loop {
        let cands = props::shrink(&cur);
        if start >= cands.len() || budget == 0 {
            return cur;
        }
        let batch: Vec<(usize, &AnyCase)> = cands.iter().enumerate().skip(start).take(16.min(budget)).collect();
        budget -= batch.len();
        let results: Vec<(usize, bool)> = std::thread::scope(|sc| {
            let handles: Vec<_> = batch
                .iter()
                .map(|(i, c)| {
                    let path = dir.path().join(format!("cand-{}.json", i));
                    let rf = ReplayFile {
                        property: prop.to_string(),
                        seed,
                        run,
                        class: class.to_string(),
                        detail: String::new(),
                        minimised: false,
                        schedule_controlled: true,
                        case: (*c).clone(),
                    };
                    let _ = std::fs::write(&path, serde_json::to_string(&rf).unwrap());
                    let i = *i;
                    sc.spawn(move || {
                        let (ok, _) = replay_fresh(&path.to_string_lossy(), timeout, mem_cap);
                        (i, ok)
                    })
                })
                .collect();
            handles.into_iter().map(|h| h.join().unwrap_or((usize::MAX, false))).collect()
        });
        match results.iter().filter(|(_, ok)| *ok).map(|(i, _)| *i).min() {
            Some(i) => {
                cur = cands[i].clone();
                start = i; // continue at the same position of the new candidate list
            }
            None => start += batch.len(),
        }
    }
}

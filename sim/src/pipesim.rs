//! pipesim: executes one write of the real pipeline under the simulator (scheduler, SimSink,
//! SimSource / library sources, fault plan) and returns everything the oracles need.

use std::collections::{BTreeMap, HashMap};
use std::io::Write as _;
use std::panic::{catch_unwind, AssertUnwindSafe};
use std::sync::Arc;

use bigtools::beddata::{BedParserParallelStreamingIterator, BedParserStreamingIterator};
use bigtools::bed::bedparser::{parse_bed, parse_bedgraph, BedValueError};
use bigtools::{BedEntry, BigBedWrite, BigWigWrite, Value};

use crate::model::*;
use crate::sched::{self, SimSource};
use crate::sink::{FaultCounts, Op, SimRead, SimSink};

#[derive(Clone, Debug, PartialEq)]
pub enum WriteResult {
    Ok,
    Err(String),
    Panic(String),
}

pub struct WriteOutcome {
    pub result: WriteResult,
    pub image: Vec<u8>,
    pub ops: Vec<Op>,
    pub counts: FaultCounts,
    pub op_counts: (usize, usize, usize),
    pub steps: u64,
    pub nonzero_decisions: u64,
    pub trace_hash: u64,
    pub trace: Vec<u16>,
    pub sites: BTreeMap<&'static str, u64>,
    pub probes: BTreeMap<&'static str, u64>,
}

/// The record stream that is actually fed to the writer (model + planted bad record).
pub struct Stream {
    pub sizes: HashMap<String, u32>,
    pub records: Vec<(String, Item)>,
    /// replacement text for record k (malformed line)
    pub malformed: Option<(usize, String)>,
    pub error_at: Option<usize>,
    pub read_fail_at: Option<u64>,
    /// chromosomes that are started by the simulator's source although they have no value at all
    /// ("a value stream that yields no sections"): (position among the chromosome runs, name)
    pub empty_chroms: Vec<(usize, String)>,
}

pub fn wig_line(chrom: &str, it: &Item) -> String {
    format!("{}\t{}\t{}\t{}\n", chrom, it.s, it.e, it.v())
}

pub fn bed_line(chrom: &str, it: &Item) -> String {
    if it.rest.is_empty() {
        format!("{}\t{}\t{}\n", chrom, it.s, it.e)
    } else {
        format!("{}\t{}\t{}\t{}\n", chrom, it.s, it.e, it.rest)
    }
}

impl Stream {
    pub fn text(&self, kind: Kind) -> String {
        let mut s = String::new();
        for (k, (c, it)) in self.records.iter().enumerate() {
            if let Some((mk, line)) = &self.malformed {
                if *mk == k {
                    s.push_str(line);
                    s.push('\n');
                    continue;
                }
            }
            match kind {
                Kind::Wig => s.push_str(&wig_line(c, it)),
                Kind::Bed => s.push_str(&bed_line(c, it)),
            }
        }
        s
    }
}

pub fn build_stream(case: &PipeCase) -> Stream {
    let mut sizes: HashMap<String, u32> = HashMap::new();
    for c in &case.chroms {
        sizes.insert(c.name.clone(), c.len);
    }
    for (n, l) in &case.extra_sizes {
        sizes.entry(n.clone()).or_insert(*l);
    }
    let mut chroms: Vec<Chrom> = case.chroms.clone();
    let mut malformed = None;
    let mut error_at = None;
    let mut read_fail_at = None;
    let mut empty = false;
    if let Some(bad) = &case.bad {
        let ci = bad.chrom.min(chroms.len().saturating_sub(1));
        let ii = if chroms.is_empty() {
            0
        } else {
            bad.item.min(chroms[ci].items.len().saturating_sub(1))
        };
        let flat_index = |chroms: &Vec<Chrom>, ci: usize, ii: usize| -> usize {
            chroms[..ci].iter().map(|c| c.items.len()).sum::<usize>() + ii
        };
        match bad.kind {
            BadKind::OutOfOrder => {
                let it = chroms[ci].items[ii].clone();
                let x = match case.kind {
                    Kind::Wig => Item::wig(it.s.saturating_add(3), it.s.saturating_add(4), 1.0),
                    Kind::Bed => Item::bed(it.s.saturating_add(3), it.s.saturating_add(4), ""),
                };
                chroms[ci].items.insert(ii, x);
            }
            BadKind::Overlap => {
                let it = chroms[ci].items[ii].clone();
                let x = Item::wig(it.s.saturating_sub(1), it.s.saturating_add(1), 2.0);
                chroms[ci].items.insert(ii, x);
            }
            BadKind::StartAfterEnd => {
                let it = chroms[ci].items[ii].clone();
                let x = match case.kind {
                    Kind::Wig => Item::wig(it.s.saturating_add(2), it.s.saturating_add(1), 1.0),
                    Kind::Bed => Item::bed(it.s.saturating_add(2), it.s.saturating_add(1), ""),
                };
                chroms[ci].items.insert(ii, x);
            }
            BadKind::BeyondChrom => {
                let it = chroms[ci].items[ii].clone();
                let name = chroms[ci].name.clone();
                match case.kind {
                    Kind::Wig => {
                        if it.e == 0 {
                            // make it non-empty so that it can stick out
                            chroms[ci].items[ii].e = 1;
                            sizes.insert(name, 0);
                        } else {
                            sizes.insert(name, it.e - 1);
                        }
                    }
                    Kind::Bed => {
                        sizes.insert(name, it.s);
                    }
                }
            }
            BadKind::UnknownChrom => {
                chroms[ci].name = "chrNotInSizes".to_string();
            }
            BadKind::ChromOrder => {
                // move chromosome ci (>=1) to the front: names were sorted, so the result is unsorted
                if chroms.len() >= 2 {
                    let ci = ci.max(1);
                    let c = chroms.remove(ci);
                    chroms.insert(0, c);
                }
            }
            BadKind::Malformed => {
                let k = flat_index(&chroms, ci, ii);
                let name = chroms[ci].name.clone();
                let variants = [
                    format!("{}\tabc\t5\t1", name),
                    format!("{}\t5", name),
                    format!("{} 5 6 1.0", name),
                    format!("{}\t5\tx7\t1.0", name),
                    format!("{}\t-5\t7\t1.0", name),
                    format!("{}\t5\t99999999999\t1.0", name),
                ];
                let v = (bad.item + bad.chrom) % variants.len();
                let mut line = variants[v].clone();
                if case.kind == Kind::Wig && v >= 6 {
                    line = format!("{}\t5\t7\tnotanumber", name);
                }
                malformed = Some((k, line));
            }
            BadKind::Empty => {
                empty = true;
            }
            BadKind::SourceError => {
                error_at = Some(flat_index(&chroms, ci, ii));
            }
            BadKind::ReadError => {
                // byte position derived from the record index; resolved by the caller against the text
                read_fail_at = Some(flat_index(&chroms, ci, ii) as u64);
            }
        }
    }
    let mut records = vec![];
    if !empty {
        for c in &chroms {
            for it in &c.items {
                records.push((c.name.clone(), it.clone()));
            }
        }
    }
    let empty_chroms: Vec<(usize, String)> = if empty {
        vec![]
    } else {
        chroms
            .iter()
            .enumerate()
            .filter(|(_, c)| c.items.is_empty())
            .map(|(i, c)| (i, c.name.clone()))
            .collect()
    };
    Stream {
        sizes,
        records,
        malformed,
        error_at,
        read_fail_at,
        empty_chroms,
    }
}

fn to_value(it: &Item) -> Value {
    Value {
        start: it.s,
        end: it.e,
        value: it.v(),
    }
}

fn to_entry(it: &Item) -> BedEntry {
    BedEntry {
        start: it.s,
        end: it.e,
        rest: it.rest.clone(),
    }
}

pub fn panic_message(p: Box<dyn std::any::Any + Send>) -> String {
    if let Some(s) = p.downcast_ref::<&str>() {
        s.to_string()
    } else if let Some(s) = p.downcast_ref::<String>() {
        s.clone()
    } else {
        "<non-string panic>".to_string()
    }
}

/// A reader that fails with an I/O error once `fail_at` bytes have been delivered (F8).
pub struct FailingText {
    inner: SimRead,
    delivered: u64,
    fail_at: Option<u64>,
}

impl std::io::Read for FailingText {
    fn read(&mut self, buf: &mut [u8]) -> std::io::Result<usize> {
        if let Some(f) = self.fail_at {
            if self.delivered >= f {
                return Err(std::io::Error::new(
                    std::io::ErrorKind::Other,
                    "injected read failure",
                ));
            }
            let room = (f - self.delivered) as usize;
            let n = buf.len().min(room.max(1));
            let r = self.inner.read(&mut buf[..n])?;
            self.delivered += r as u64;
            return Ok(r);
        }
        let r = self.inner.read(buf)?;
        self.delivered += r as u64;
        Ok(r)
    }
}

fn group_runs<V: Clone>(records: &[(String, Item)], conv: fn(&Item) -> V) -> Vec<(String, Vec<V>)> {
    let mut out: Vec<(String, Vec<V>)> = vec![];
    for (c, it) in records {
        match out.last_mut() {
            Some((name, v)) if name == c => v.push(conv(it)),
            _ => out.push((c.clone(), vec![conv(it)])),
        }
    }
    out
}

macro_rules! run_sources {
    ($case:expr, $stream:expr, $rt:expr, $V:ty, $conv:expr, $parse:expr, $from_text:ident, $writer:expr) => {{
        let case: &PipeCase = $case;
        let stream: &Stream = $stream;
        let allow = !case.opts.sort_all;
        let conv: fn(&Item) -> $V = $conv;
        match &case.source {
            Source::SerialIter => {
                let recs: Arc<Vec<(String, $V)>> =
                    Arc::new(stream.records.iter().map(|(c, i)| (c.clone(), conv(i))).collect());
                let err_at = stream.error_at;
                let mk = move || {
                    let recs = recs.clone();
                    let n = recs.len() + if err_at.is_some() { 1 } else { 0 };
                    let mut k = 0usize;
                    let mut delivered = 0usize;
                    let iter = std::iter::from_fn(move || {
                        if k >= n {
                            return None;
                        }
                        let this = k;
                        k += 1;
                        if Some(this) == err_at {
                            return Some(Err(BedValueError::InvalidInput(
                                "injected source error".to_string(),
                            )));
                        }
                        let r = recs.get(delivered).cloned();
                        delivered += 1;
                        r.map(Ok)
                    });
                    BedParserStreamingIterator::wrap_iter(iter, allow)
                };
                if case.multipass {
                    err_string($writer.write_multipass(move || Ok(mk()), $rt))
                } else {
                    err_string($writer.write(mk(), $rt))
                }
            }
            Source::SerialText => {
                let text = Arc::new(stream.text(case.kind).into_bytes());
                let fail_at = stream.read_fail_at.map(|k| {
                    // fail somewhere inside record k's line
                    let mut pos = 0u64;
                    let mut line = 0u64;
                    for b in text.iter() {
                        if line == k {
                            break;
                        }
                        if *b == b'\n' {
                            line += 1;
                        }
                        pos += 1;
                    }
                    pos + 1
                });
                let rf = case.read.clone();
                let mk = move || {
                    let rd = FailingText {
                        inner: SimRead::new(text.clone(), &rf),
                        delivered: 0,
                        fail_at,
                    };
                    BedParserStreamingIterator::$from_text(rd, allow)
                };
                if case.multipass {
                    err_string($writer.write_multipass(move || Ok(mk()), $rt))
                } else {
                    err_string($writer.write(mk(), $rt))
                }
            }
            Source::ParallelFile => {
                let text = stream.text(case.kind);
                let mut tmp = tempfile::NamedTempFile::new().expect("scratch file");
                tmp.write_all(text.as_bytes()).expect("scratch write");
                tmp.flush().expect("scratch flush");
                let path = tmp.path().to_path_buf();
                let index = match std::fs::File::open(&path)
                    .and_then(|f| bigtools::bed::indexer::index_chroms(f))
                {
                    Ok(Some(ix)) => Some(ix),
                    Ok(None) => None,
                    Err(_) => None,
                };
                match index {
                    Some(ix) => {
                        let p2 = path.clone();
                        let mk = move || {
                            BedParserParallelStreamingIterator::new(ix.clone(), allow, p2.clone(), $parse)
                        };
                        let r = if case.multipass {
                            err_string($writer.write_multipass(move || Ok(mk()), $rt))
                        } else {
                            err_string($writer.write(mk(), $rt))
                        };
                        drop(tmp);
                        r
                    }
                    None => {
                        // not indexable (not grouped / unparsable / empty): the tools fall back to the serial source
                        let p2 = path.clone();
                        let mk = move || {
                            let f = std::fs::File::open(&p2).expect("scratch reopen");
                            BedParserStreamingIterator::$from_text(f, allow)
                        };
                        let r = if case.multipass {
                            err_string($writer.write_multipass(move || Ok(mk()), $rt))
                        } else {
                            err_string($writer.write(mk(), $rt))
                        };
                        drop(tmp);
                        r
                    }
                }
            }
            Source::Sim { inflight } => {
                let mut groups_v: Vec<(String, Vec<$V>)> = group_runs(&stream.records, conv);
                for (pos, name) in &stream.empty_chroms {
                    let at = (*pos).min(groups_v.len());
                    groups_v.insert(at, (name.clone(), vec![]));
                }
                let groups: Arc<Vec<(String, Vec<$V>)>> = Arc::new(groups_v);
                // translate the flat error index into (chrom run, item)
                let err = stream.error_at.map(|k| {
                    let mut rem = k;
                    let mut at = (groups.len().saturating_sub(1), 0usize);
                    for (gi, (_, v)) in groups.iter().enumerate() {
                        if rem < v.len() {
                            at = (gi, rem);
                            break;
                        }
                        rem -= v.len();
                        at = (gi, v.len());
                    }
                    at
                });
                let inflight = *inflight as usize;
                let mk = move || SimSource {
                    chroms: (*groups).clone(),
                    inflight,
                    error_at: err,
                };
                if case.multipass {
                    err_string($writer.write_multipass(move || Ok(mk()), $rt))
                } else {
                    err_string($writer.write(mk(), $rt))
                }
            }
        }
    }};
}

fn err_string<E: std::fmt::Display>(r: Result<(), E>) -> Result<(), String> {
    r.map_err(|e| format!("{}", e))
}

fn do_write(case: &PipeCase, stream: &Stream, sink: SimSink, rt: tokio::runtime::Runtime) -> Result<(), String> {
    match case.kind {
        Kind::Wig => {
            let mk_writer = || {
                let mut w = BigWigWrite::new(sink.clone(), stream.sizes.clone());
                w.options = case.opts.to_bbi();
                w
            };
            run_sources!(
                case,
                stream,
                rt,
                Value,
                to_value,
                parse_bedgraph,
                from_bedgraph_file,
                mk_writer()
            )
        }
        Kind::Bed => {
            let mk_writer = || {
                let mut w = BigBedWrite::new(sink.clone(), stream.sizes.clone());
                w.options = case.opts.to_bbi();
                w.autosql = case.autosql.clone();
                w
            };
            run_sources!(
                case,
                stream,
                rt,
                BedEntry,
                to_entry,
                parse_bed,
                from_bed_file,
                mk_writer()
            )
        }
    }
}

/// Executes the write described by `case` under the simulator.
pub fn run_write(case: &PipeCase, record_data: bool) -> WriteOutcome {
    let stream = build_stream(case);
    let sink = SimSink::new(&case.sink, record_data);
    let _ = bigtools::verif::take_probes();
    let st = sched::install(&case.sched);
    st.lock().unwrap_or_else(|e| e.into_inner()).uncontrolled = case.mt_threads > 0;
    let rt = if case.mt_threads == 0 {
        sched::current_thread_runtime()
    } else {
        tokio::runtime::Builder::new_multi_thread()
            .worker_threads(case.mt_threads as usize)
            .build()
            .expect("mt runtime")
    };
    let sink2 = sink.clone();
    let res = catch_unwind(AssertUnwindSafe(|| do_write(case, &stream, sink2, rt)));
    sched::uninstall();
    let result = match res {
        Ok(Ok(())) => WriteResult::Ok,
        Ok(Err(e)) => WriteResult::Err(e),
        Err(p) => WriteResult::Panic(panic_message(p)),
    };
    let (image, ops, counts, op_counts) = sink.snapshot();
    let s = st.lock().unwrap_or_else(|e| e.into_inner());
    WriteOutcome {
        result,
        image,
        ops,
        counts,
        op_counts,
        steps: s.steps,
        nonzero_decisions: s.nonzero,
        trace_hash: s.trace_hash,
        trace: s.trace.clone(),
        sites: s.sites.clone(),
        probes: bigtools::verif::take_probes(),
    }
}


/// Runs a subprocess of the code under test with a deadline (a tool that never finishes must not outlive the
/// worker as an orphan): Err(TimedOut) after `secs`, the child is killed.
pub fn output_with_deadline(cmd: std::process::Command, secs: u64) -> std::io::Result<std::process::Output> {
    output_with_deadline_fed(cmd, secs, None)
}

/// As `output_with_deadline`; with `feed = (bytes, split, pause_ms)` the child's standard input is a pipe that gets
/// `bytes[..split]`, then nothing for `pause_ms`, then the rest (a slow upstream producer: legal short reads on the
/// reading side; the outcome of correct code cannot depend on the pause).
pub fn output_with_deadline_fed(
    mut cmd: std::process::Command,
    secs: u64,
    feed: Option<(Vec<u8>, usize, u64)>,
) -> std::io::Result<std::process::Output> {
    use std::io::{Read, Write};
    use std::process::Stdio;
    cmd.stdout(Stdio::piped()).stderr(Stdio::piped());
    if feed.is_some() {
        cmd.stdin(Stdio::piped());
    }
    let mut child = cmd.spawn()?;
    if let Some((bytes, split, pause_ms)) = feed {
        if let Some(mut si) = child.stdin.take() {
            std::thread::spawn(move || {
                let split = split.min(bytes.len());
                let _ = si.write_all(&bytes[..split]);
                let _ = si.flush();
                std::thread::sleep(std::time::Duration::from_millis(pause_ms));
                let _ = si.write_all(&bytes[split..]);
                // dropping `si` closes the pipe
            });
        }
    }
    let mut so = child.stdout.take();
    let mut se = child.stderr.take();
    let t_out = std::thread::spawn(move || {
        let mut v = vec![];
        if let Some(s) = so.as_mut() {
            let _ = s.read_to_end(&mut v);
        }
        v
    });
    let t_err = std::thread::spawn(move || {
        let mut v = vec![];
        if let Some(s) = se.as_mut() {
            let _ = s.read_to_end(&mut v);
        }
        v
    });
    let deadline = std::time::Instant::now() + std::time::Duration::from_secs(secs);
    let status = loop {
        match child.try_wait()? {
            Some(st) => break st,
            None => {
                if std::time::Instant::now() > deadline {
                    let _ = child.kill();
                    let _ = child.wait();
                    let _ = t_out.join();
                    let _ = t_err.join();
                    return Err(std::io::Error::new(
                        std::io::ErrorKind::TimedOut,
                        format!("no exit within {} s (killed)", secs),
                    ));
                }
                std::thread::sleep(std::time::Duration::from_millis(5));
            }
        }
    };
    Ok(std::process::Output {
        status,
        stdout: t_out.join().unwrap_or_default(),
        stderr: t_err.join().unwrap_or_default(),
    })
}

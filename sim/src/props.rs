//! Property registry: how cases are generated, executed and shrunk for each property.

use serde::{Deserialize, Serialize};

use crate::checks::{self, Verdict};
use crate::clisim;
use crate::gen::{self, Profile};
use crate::model::*;
use crate::pipeprops;
use crate::pipesim;
use crate::readsim;
use crate::tfbsim;
use crate::textsim;
use crate::report::{RunReport, RunStats};
use crate::rng::{hash_bytes, Rng};

#[derive(Clone, Debug, Serialize, Deserialize)]
pub enum AnyCase {
    Pipe(PipeCase),
    Multi(pipeprops::MultiCase),
    Enum(pipeprops::EnumCase),
    Read(readsim::ReadCase),
    Enc(readsim::EncCase),
    Tfb(tfbsim::TfbCase),
    Shuttle(tfbsim::ShuttleCase),
    Text(textsim::TextCase),
    Sql(textsim::SqlCase),
    Cli(clisim::CliCase),
    Conv(clisim::ConvCase),
    Merge(clisim::MergeCase),
    Avg(clisim::AvgCase),
}

pub const ALL_PROPS: &[&str] = &["C01", "C02", "C03", "C04", "C05", "C06", "C10", "C07", "C08", "C09", "C11", "C12", "C13", "C14", "C15", "C16", "C17", "C18", "C19"];

pub struct Budget {
    pub quick_runs: u64,
    pub thorough_runs: u64,
}

pub fn budget(prop: &str) -> Budget {
    match prop {
        "C11" => Budget {
            quick_runs: 4_000,
            thorough_runs: 150_000,
        },
        "C03" | "C04" | "C10" => Budget {
            quick_runs: 4_000,
            thorough_runs: 200_000,
        },
        "C05" => Budget {
            quick_runs: 640,
            thorough_runs: 40_000,
        },
        "C15" => Budget {
            quick_runs: 3_000,
            thorough_runs: 150_000,
        },
        "C16" => Budget {
            quick_runs: 1_500,
            thorough_runs: 80_000,
        },
        "C17" => Budget {
            quick_runs: 2_000,
            thorough_runs: 100_000,
        },
        "C18" => Budget {
            quick_runs: 30_000,
            thorough_runs: 1_500_000,
        },
        "C19" => Budget {
            quick_runs: 3_000,
            thorough_runs: 60_000,
        },
        "C12" => Budget {
            quick_runs: 8_000,
            thorough_runs: 200_000,
        },
        "C14" => Budget {
            quick_runs: 400,
            thorough_runs: 12_000,
        },
        _ => Budget {
            quick_runs: 20_000,
            thorough_runs: 600_000,
        },
    }
}

/// Address-space cap of the worker processes (bytes).
pub fn mem_cap(prop: &str) -> u64 {
    match prop {
        // address space is not memory: only the resident-set guard of the worker applies process-wide; the autoSql
        // parser batches of C19 put a 1 GiB address-space cap around the parser calls themselves (textsim::AsCap)
        _ => 0,
    }
}

pub fn level(prop: &str) -> &'static str {
    match prop {
        "C14" => "fault_enumeration",
        _ => "exploration",
    }
}

pub fn case_hash(c: &AnyCase) -> u64 {
    hash_bytes(&serde_json::to_vec(c).expect("serialize case"))
}

const SCHEMAS: &[&str] = &[
    "table bed3\n\"Simple bed\"\n(\n    string chrom;        \"Reference sequence chromosome or scaffold\"\n    uint   chromStart;   \"Start position in chromosome\"\n    uint   chromEnd;     \"End position in chromosome\"\n)",
    "table bed4 \"four\" ( string chrom; \"c\" uint chromStart; \"s\" uint chromEnd; \"e\" string name; \"n\" )",
    "table t6\n\"six fields\"\n(\nstring chrom; \"c\"\nuint chromStart; \"s\"\nuint chromEnd; \"e\"\nstring name; \"n\"\nuint score; \"sc\"\nchar[1] strand; \"+ or -\"\n)\n",
];

fn profile_for(prop: &str) -> Profile {
    let mut p = Profile::default();
    match prop {
        "C01" => p.kind = Some(Kind::Wig),
        "C02" => {
            p.kind = Some(Kind::Bed);
            p.bed_past_end = true;
        }
        "C07" => {
            p.kind = Some(Kind::Wig);
            p.zoom_focus = true;
        }
        "C08" => {
            p.kind = Some(Kind::Bed);
            p.zoom_focus = true;
        }
        _ => {}
    }
    p
}

pub fn gen_case(prop: &str, seed: u64, idx: u64, tier: &str) -> AnyCase {
    let mut rng = Rng::derive(seed, idx, prop);
    match prop {
        "C11" => {
            if idx % 5 == 4 {
                return AnyCase::Conv(clisim::gen_conv(&mut rng));
            }
            return AnyCase::Multi(pipeprops::gen_c11(&mut rng, tier));
        }
        "C15" => return AnyCase::Merge(clisim::gen_merge(&mut rng)),
        "C16" => {
            if idx % 10 == 9 {
                // the converters' multi-threaded library entry points over SimRead with one hard read error (F10):
                // the conversion may fail, it must not report success with records missing
                let mut cc = clisim::gen_conv(&mut rng);
                if cc.hard.is_none() {
                    cc.hard = Some(rng.below(60) as u32);
                    cc.hard_kind = rng.below(4) as u8;
                }
                return AnyCase::Conv(cc);
            }
            return AnyCase::Cli(clisim::gen_cli(&mut rng, prop));
        }
        "C17" => return AnyCase::Avg(clisim::gen_avg(&mut rng)),
        "C13" => return AnyCase::Pipe(pipeprops::gen_c13(&mut rng)),
        "C14" => return AnyCase::Enum(pipeprops::gen_c14(&mut rng)),
        "C03" | "C04" => return AnyCase::Read(readsim::gen_read_case(&mut rng, prop)),
        "C05" => return AnyCase::Read(readsim::gen_c05(&mut rng, idx)),
        "C10" => return AnyCase::Enc(readsim::gen_c10(&mut rng)),
        "C18" => {
            if idx % 50 == 49 {
                // the statement's last clause ("the parallel paths see precisely the record stream the serial path
                // sees") on the whole pipeline: the same input through the serial text source (reference) and through
                // the indexed, per-chromosome-view parallel source must give the same bytes (C11's engine, sources
                // restricted to the two text paths; chromosome runs in any order the sort option allows)
                let mut mc = pipeprops::gen_c11(&mut rng, tier);
                for (k, v) in mc.variants.iter_mut().enumerate() {
                    v.source = if k % 3 == 2 { Source::SerialText } else { Source::ParallelFile };
                    v.mt_threads = 0;
                }
                return AnyCase::Multi(mc);
            }
            return AnyCase::Text(textsim::gen_text_case(&mut rng));
        }
        "C19" => {
            if idx % 3 == 0 {
                return AnyCase::Cli(clisim::gen_cli(&mut rng, prop));
            }
            return AnyCase::Sql(textsim::gen_sql(&mut rng, idx));
        }
        "C12" => {
            if idx % 40 == 0 {
                return AnyCase::Shuttle(tfbsim::ShuttleCase {
                    seed: rng.next_u64(),
                    iters: if tier == "thorough" { 20_000 } else { 3_000 },
                    scheduler: if (idx / 40) % 2 == 0 { "random".into() } else { "pct".into() },
                    schedule: None,
                });
            }
            return AnyCase::Tfb(tfbsim::gen_tfb(&mut rng));
        }
        _ => {}
    }
    let p = profile_for(prop);
    let mut case = gen::gen_pipe_case(&mut rng, &p);
    if case.kind == Kind::Bed && rng.chance(1, 3) {
        case.autosql = Some(if rng.chance(1, 2) {
            rng.pick(SCHEMAS).to_string()
        } else {
            // grammar-based schema (simple/object/table, sized arrays, enum/set, index/unique/primary/auto)
            let nf = rng.range(3, 15) as usize;
            crate::textsim::gen_schema_tokens(&mut rng, nf).join(" ")
        });
    }
    if matches!(prop, "C01" | "C02" | "C06" | "C09") && rng.chance(1, 25) {
        // thread count is part of the option space: a share of the runs uses a real multi-thread runtime
        // (uncontrolled; the oracle - exact read-back - does not depend on the schedule)
        case.mt_threads = rng.range(1, 16) as u8;
    }
    if matches!(prop, "C01" | "C02" | "C06" | "C07" | "C08" | "C09") && rng.chance(1, 12) {
        // a destination that delivers only what was flushed: a write that reports success must have flushed it all
        case.sink.commit_on_flush = true;
    }
    if matches!(prop, "C01" | "C02" | "C06" | "C07" | "C08" | "C09") && case.mt_threads == 0 && rng.chance(1, 10) {
        // F5 inside the content checks: one sink operation fails once. The write may fail (whether it must is C14's
        // business, such runs are skipped here) - but if it reports success, the file has to be right all the same
        case.sink.fail = Some(crate::model::FailOp {
            kind: rng.pick(&["write", "write", "write", "flush", "seek"]).to_string(),
            index: rng.below(48) as usize,
            sticky: false,
            // three quarters of them are placed relative to what the fault-free run does, so that they always fire
            frac_pm: if rng.chance(3, 4) { Some(rng.below(1000) as u16) } else { None },
        });
    }
    AnyCase::Pipe(case)
}

pub fn sections_of(case: &PipeCase) -> u64 {
    let ips = case.opts.items_per_slot.max(1) as u64;
    case.chroms
        .iter()
        .map(|c| (c.items.len() as u64 + ips - 1) / ips)
        .sum()
}

fn pipe_stats(case: &PipeCase, out: &pipesim::WriteOutcome) -> RunStats {
    let mut st = RunStats::default();
    st.steps = out.steps;
    st.nonzero_decisions = out.nonzero_decisions;
    st.trace_hash = out.trace_hash;
    st.sink_ops = out.ops.len() as u64;
    st.outcome_hash = hash_bytes(&out.image);
    let mut f = |k: &str, v: u64| {
        if v > 0 {
            st.faults.insert(k.to_string(), v);
        }
    };
    f("F1_short_write", out.counts.short_writes);
    f("F2_eintr_write", out.counts.eintr_writes);
    f("F5_failed_op", out.counts.failed_ops);
    for (k, v) in &out.probes {
        st.probes.insert(k.to_string(), *v);
    }
    for (k, v) in &out.sites {
        st.counters.insert(format!("site:{}", k), *v);
    }
    let src = match &case.source {
        Source::SerialIter => "source:serial_iter".to_string(),
        Source::SerialText => "source:serial_text".to_string(),
        Source::ParallelFile => "source:parallel_file".to_string(),
        Source::Sim { inflight } => format!("source:sim_inflight_{}", inflight),
    };
    st.counters.insert(src, 1);
    st.counters
        .insert(if case.multipass { "pass:two".into() } else { "pass:single".into() }, 1);
    if case.sink.commit_on_flush {
        st.counters.insert("sink:delivers_only_what_was_flushed".into(), 1);
    }
    st
}

pub fn run_case(prop: &str, case: &AnyCase) -> RunReport {
    match case {
        AnyCase::Multi(mc) => pipeprops::run_c11(mc),
        AnyCase::Enum(ec) => pipeprops::run_c14(ec),
        AnyCase::Read(rc) if prop == "C05" => readsim::run_c05(rc),
        AnyCase::Read(rc) => readsim::run_read_case(rc),
        AnyCase::Enc(ec) => readsim::run_c10(ec),
        AnyCase::Tfb(tc) => tfbsim::run_tfb(tc),
        AnyCase::Shuttle(sc) => tfbsim::run_shuttle(sc),
        AnyCase::Text(tc) => textsim::run_text_case(tc),
        AnyCase::Sql(sc) => textsim::run_sql(sc),
        AnyCase::Cli(c) => clisim::run_cli(c),
        AnyCase::Conv(c) => clisim::run_conv(c),
        AnyCase::Merge(c) => clisim::run_merge(c),
        AnyCase::Avg(c) => clisim::run_avg(c),
        AnyCase::Pipe(pc) if prop == "C13" => pipeprops::run_c13(pc),
        AnyCase::Pipe(pc) => {
            // F5 placed relative to the fault-free run: resolve the operation index first
            let resolved;
            let pc = match &pc.sink.fail {
                Some(f) if f.frac_pm.is_some() => {
                    let mut clean = pc.clone();
                    clean.sink.fail = None;
                    let o = pipesim::run_write(&clean, false);
                    let (nw, ns, nf) = o.op_counts;
                    let cnt = match f.kind.as_str() {
                        "write" => nw,
                        "seek" => ns,
                        _ => nf,
                    };
                    let mut c2 = pc.clone();
                    if let Some(f2) = c2.sink.fail.as_mut() {
                        f2.index = (f.frac_pm.unwrap_or(0) as usize * cnt.max(1)) / 1000;
                        f2.frac_pm = None;
                    }
                    resolved = c2;
                    &resolved
                }
                _ => pc,
            };
            let out = pipesim::run_write(pc, false);
            let mut py = false;
            let mut info_tool = false;
            let mut zoom_tool = false;
            let verdict = match prop {
                "C01" => checks::check_c01(pc, &out),
                "C02" => checks::check_c02(pc, &out),
                "C06" => {
                    let v = checks::check_c06(pc, &out);
                    // a small share of the files also goes through bigwiginfo / bigbedinfo (built binary)
                    if v == Verdict::Pass && hash_bytes(&out.image) % 64 == 0 {
                        info_tool = true;
                        checks::check_c06_info_tool(pc, &out.image)
                    } else {
                        v
                    }
                }
                "C07" | "C08" => {
                    let v = checks::check_zooms(pc, &out);
                    if prop == "C08" && v == Verdict::Pass && hash_bytes(&out.image) % 16 == 0 {
                        zoom_tool = true;
                        checks::check_c08_zoom_tool(pc, &out.image)
                    } else {
                        v
                    }
                }
                "C09" => {
                    let v = checks::check_c09(pc, &out);
                    // a sample of the images is also judged by the Python decoder (every image in a replay)
                    let rate: u64 = std::env::var("VERIF_PY_RATE").ok().and_then(|s| s.parse().ok()).unwrap_or(1);
                    if v == Verdict::Pass && rate > 0 && hash_bytes(&out.image) % rate == 0 {
                        py = true;
                        checks::check_c09_python(pc, &out.image)
                    } else {
                        v
                    }
                }
                _ => Verdict::Skip(format!("no oracle for {}", prop)),
            };
            let nontrivial = sections_of(pc) >= 2;
            let verdict = match verdict {
                Verdict::Violation { class, detail } if pc.mt_threads > 0 => Verdict::Violation {
                    class: format!("{}-uncontrolled", class),
                    detail,
                },
                v => v,
            };
            let mut stats = pipe_stats(pc, &out);
            if pc.mt_threads > 0 {
                stats.uncontrolled = true;
                stats.counters.insert("uncontrolled_runs(multi_thread_runtime)".into(), 1);
            }
            if py {
                stats.counters.insert("images_judged_by_python_decoder".into(), 1);
            }
            if zoom_tool {
                stats.counters.insert("files_through_bigbedtobed_zoom".into(), 1);
            }
            if info_tool && std::env::var("VERIF_BIGTOOLS_BIN").map(|b| std::path::Path::new(&b).exists()).unwrap_or(false) {
                stats.counters.insert("files_through_info_tool(subprocess)".into(), 1);
            }
            RunReport {
                verdict,
                nontrivial,
                stats,
            }
        }
    }
}

fn shrink_items(items: &[Item]) -> Vec<Vec<Item>> {
    let n = items.len();
    let mut out = vec![];
    if n == 0 {
        return out;
    }
    let mut chunk = n / 2;
    while chunk >= 1 {
        let mut start = 0;
        while start < n {
            let end = (start + chunk).min(n);
            if end - start < n {
                let mut v = items[..start].to_vec();
                v.extend_from_slice(&items[end..]);
                out.push(v);
            }
            start += chunk;
        }
        if chunk == 1 {
            break;
        }
        chunk /= 2;
        if out.len() > 40 {
            break;
        }
    }
    out
}

pub fn shrink_pipe(c: &PipeCase) -> Vec<PipeCase> {
    let mut out: Vec<PipeCase> = vec![];
    let mut push = |f: &dyn Fn(&mut PipeCase)| {
        let mut n = c.clone();
        f(&mut n);
        if n != *c {
            out.push(n);
        }
    };
    push(&|n| n.sched = Sched::Calm);
    if let Sched::Explicit(v) = &c.sched {
        let len = v.len();
        for (a, b) in [(0, len / 2), (len / 2, len), (0, len / 4), (len * 3 / 4, len)] {
            let v2: Vec<u16> = v
                .iter()
                .enumerate()
                .map(|(i, x)| if i >= a && i < b { 0 } else { *x })
                .collect();
            push(&move |n| n.sched = Sched::Explicit(v2.clone()));
        }
        let v3: Vec<u16> = v.iter().map(|x| (*x).min(1)).collect();
        push(&move |n| n.sched = Sched::Explicit(v3.clone()));
    }
    push(&|n| n.sink = SinkFaults {
        fail: n.sink.fail.clone(),
        commit_on_flush: n.sink.commit_on_flush,
        ..Default::default()
    });
    push(&|n| n.sink.commit_on_flush = false);
    push(&|n| n.read = ReadFaults::default());
    push(&|n| n.mt_threads = 0);
    push(&|n| n.source = Source::SerialIter);
    push(&|n| n.source = Source::Sim { inflight: 1 });
    push(&|n| n.multipass = false);
    push(&|n| n.extra_sizes.clear());
    push(&|n| n.autosql = None);
    for k in 0..c.chroms.len() {
        if c.chroms.len() > 1 {
            push(&move |n| {
                n.chroms.remove(k);
                if let Some(b) = &mut n.bad {
                    if b.chrom >= n.chroms.len() {
                        b.chrom = n.chroms.len() - 1;
                    }
                }
            });
        }
    }
    for k in 0..c.chroms.len() {
        for items in shrink_items(&c.chroms[k].items) {
            if items.is_empty() {
                continue;
            }
            push(&move |n| n.chroms[k].items = items.clone());
        }
    }
    let d = Opts::default();
    push(&|n| n.opts.compress = false);
    push(&|n| n.opts.items_per_slot = d.items_per_slot);
    push(&|n| n.opts.block_size = d.block_size);
    push(&|n| n.opts.channel_size = d.channel_size);
    push(&|n| n.opts.inmemory = true);
    push(&|n| n.opts.manual_zooms = Some(vec![]));
    push(&|n| {
        if let Some(z) = &n.opts.manual_zooms {
            if z.len() > 1 {
                n.opts.manual_zooms = Some(vec![z[0]]);
            }
        }
    });
    push(&|n| {
        n.opts.initial_zoom_size = d.initial_zoom_size;
        n.opts.max_zooms = d.max_zooms;
    });
    // shrink chromosome lengths to the data
    for k in 0..c.chroms.len() {
        push(&move |n| {
            let m = n.chroms[k].items.iter().map(|i| i.e.max(i.s + 1)).max().unwrap_or(1);
            n.chroms[k].len = m;
        });
    }
    // simplify values / rests
    push(&|n| {
        for ch in &mut n.chroms {
            for it in &mut ch.items {
                if n.kind == Kind::Wig {
                    it.vb = 1.0f32.to_bits();
                } else {
                    it.rest.clear();
                }
            }
        }
    });
    out
}

pub fn shrink(case: &AnyCase) -> Vec<AnyCase> {
    match case {
        AnyCase::Pipe(p) => shrink_pipe(p).into_iter().map(AnyCase::Pipe).collect(),
        AnyCase::Multi(m) => pipeprops::shrink_c11(m).into_iter().map(AnyCase::Multi).collect(),
        AnyCase::Enum(e) => pipeprops::shrink_c14(e).into_iter().map(AnyCase::Enum).collect(),
        AnyCase::Read(r) => readsim::shrink_read(r).into_iter().map(AnyCase::Read).collect(),
        AnyCase::Enc(e) => readsim::shrink_c10(e).into_iter().map(AnyCase::Enc).collect(),
        AnyCase::Tfb(t) => tfbsim::shrink_tfb(t).into_iter().map(AnyCase::Tfb).collect(),
        AnyCase::Shuttle(_) => vec![],
        AnyCase::Text(t) => textsim::shrink_text(t).into_iter().map(AnyCase::Text).collect(),
        AnyCase::Sql(q) => textsim::shrink_sql(q).into_iter().map(AnyCase::Sql).collect(),
        AnyCase::Cli(c) => clisim::shrink_cli(c).into_iter().map(AnyCase::Cli).collect(),
        AnyCase::Conv(c) => clisim::shrink_conv(c).into_iter().map(AnyCase::Conv).collect(),
        AnyCase::Merge(c) => clisim::shrink_merge(c).into_iter().map(AnyCase::Merge).collect(),
        AnyCase::Avg(c) => clisim::shrink_avg(c).into_iter().map(AnyCase::Avg).collect(),
    }
}

/// Make the schedule explicit (so that the replay file does not depend on PRNG plumbing).
pub fn explicit_schedule(prop: &str, case: &AnyCase) -> AnyCase {
    match case {
        AnyCase::Pipe(p) => {
            if matches!(p.sched, Sched::Seeded { .. }) {
                let out = pipesim::run_write(p, false);
                let mut n = p.clone();
                n.sched = Sched::Explicit(out.trace);
                let _ = prop;
                AnyCase::Pipe(n)
            } else {
                case.clone()
            }
        }
        AnyCase::Multi(m) => AnyCase::Multi(pipeprops::explicit_c11(m)),
        AnyCase::Enum(_) | AnyCase::Read(_) | AnyCase::Enc(_) | AnyCase::Tfb(_) | AnyCase::Text(_) | AnyCase::Sql(_) | AnyCase::Cli(_) | AnyCase::Merge(_) | AnyCase::Avg(_) => case.clone(),
        AnyCase::Conv(c) => AnyCase::Conv(clisim::explicit_conv(c)),
        AnyCase::Shuttle(sc) => AnyCase::Shuttle(tfbsim::explicit_shuttle(sc)),
    }
}

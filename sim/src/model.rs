//! Workload description shared by the engines: the reference model *is* the input.

use serde::{Deserialize, Serialize};

#[derive(Clone, Copy, Debug, PartialEq, Eq, Serialize, Deserialize)]
pub enum Kind {
    Wig,
    Bed,
}

/// One record. For bigWig `vb` are the f32 bits (exact in JSON); for bigBed `rest` is the rest of the line.
#[derive(Clone, Debug, PartialEq, Serialize, Deserialize)]
pub struct Item {
    pub s: u32,
    pub e: u32,
    #[serde(default)]
    pub vb: u32,
    #[serde(default, skip_serializing_if = "String::is_empty")]
    pub rest: String,
}

impl Item {
    pub fn wig(s: u32, e: u32, v: f32) -> Item {
        Item {
            s,
            e,
            vb: v.to_bits(),
            rest: String::new(),
        }
    }
    pub fn bed(s: u32, e: u32, rest: &str) -> Item {
        Item {
            s,
            e,
            vb: 0,
            rest: rest.to_string(),
        }
    }
    pub fn v(&self) -> f32 {
        f32::from_bits(self.vb)
    }
}

#[derive(Clone, Debug, PartialEq, Serialize, Deserialize)]
pub struct Chrom {
    pub name: String,
    pub len: u32,
    pub items: Vec<Item>,
}

#[derive(Clone, Debug, PartialEq, Serialize, Deserialize)]
pub struct Opts {
    pub compress: bool,
    pub items_per_slot: u32,
    pub block_size: u32,
    pub initial_zoom_size: u32,
    pub max_zooms: u32,
    pub manual_zooms: Option<Vec<u32>>,
    pub sort_all: bool,
    pub channel_size: usize,
    pub inmemory: bool,
}

impl Default for Opts {
    fn default() -> Self {
        Opts {
            compress: true,
            items_per_slot: 1024,
            block_size: 256,
            initial_zoom_size: 160,
            max_zooms: 10,
            manual_zooms: None,
            sort_all: true,
            channel_size: 100,
            inmemory: false,
        }
    }
}

impl Opts {
    pub fn to_bbi(&self) -> bigtools::BBIWriteOptions {
        bigtools::BBIWriteOptions {
            compress: self.compress,
            items_per_slot: self.items_per_slot,
            block_size: self.block_size,
            initial_zoom_size: self.initial_zoom_size,
            max_zooms: self.max_zooms,
            manual_zoom_sizes: self.manual_zooms.clone(),
            input_sort_type: if self.sort_all {
                bigtools::InputSortType::ALL
            } else {
                bigtools::InputSortType::START
            },
            channel_size: self.channel_size,
            inmemory: self.inmemory,
        }
    }
    /// Options that are allowed to change the bytes of the output.
    pub fn format_key(&self) -> String {
        format!(
            "c{} i{} b{} z{} m{} M{:?}",
            self.compress as u8,
            self.items_per_slot,
            self.block_size,
            self.initial_zoom_size,
            self.max_zooms,
            self.manual_zooms
        )
    }
}

#[derive(Clone, Debug, PartialEq, Serialize, Deserialize)]
pub enum Source {
    /// library serial source over an in-memory iterator (`wrap_infallible_iter` / `wrap_iter`)
    SerialIter,
    /// library serial source over bed/bedGraph text behind `SimRead`
    SerialText,
    /// library parallel source over a scratch file (`BedParserParallelStreamingIterator`)
    ParallelFile,
    /// the simulator's own `BBIDataSource` with `inflight` chromosomes processed concurrently
    Sim { inflight: u8 },
}

/// A bad record planted into an otherwise valid input (C13), or an `Err` item / read error.
#[derive(Clone, Debug, PartialEq, Serialize, Deserialize)]
pub enum BadKind {
    /// bigWig: next start < this start ; bigBed: next start < this start
    OutOfOrder,
    /// bigWig only: next.start < this.end
    Overlap,
    StartAfterEnd,
    /// bigWig: end > chrom len ; bigBed: start >= chrom len
    BeyondChrom,
    UnknownChrom,
    /// chromosome names out of order while sort_all is required
    ChromOrder,
    /// text sources: a malformed line
    Malformed,
    /// no record at all
    Empty,
    /// the source yields an error item at this position (SimSource / iterator sources)
    SourceError,
    /// text sources: read error at a byte position of the input text
    ReadError,
}

#[derive(Clone, Debug, PartialEq, Serialize, Deserialize)]
pub struct Bad {
    pub kind: BadKind,
    /// chromosome index and item index at which the fault is planted
    pub chrom: usize,
    pub item: usize,
}

/// How scheduling decisions are made in a run.
#[derive(Clone, Debug, PartialEq, Serialize, Deserialize)]
pub enum Sched {
    /// every hook answers 0
    Calm,
    /// decisions drawn from a stream: policy 0=calm-ish, 1=jitter, 2=stall (PCT-like)
    Seeded { policy: u8, seed: u64 },
    /// explicit decisions, consumed in order; 0 after the list ends
    Explicit(Vec<u16>),
}

#[derive(Clone, Debug, PartialEq, Default, Serialize, Deserialize)]
pub struct SinkFaults {
    /// per-mille rate of short writes (F1) and of `Interrupted` (F2); 0 = off
    #[serde(default)]
    pub short_pm: u16,
    #[serde(default)]
    pub eintr_pm: u16,
    #[serde(default)]
    pub seed: u64,
    /// F5: fail the `index`-th operation of `kind` ("write"|"seek"|"flush"); sticky = keep failing
    #[serde(default)]
    pub fail: Option<FailOp>,
    /// the destination delivers bytes only when it is flushed (a transactional writer, another BufWriter: legal under
    /// the Write contract): the image the readers get is the one as of the last successful flush
    #[serde(default)]
    pub commit_on_flush: bool,
}

#[derive(Clone, Debug, PartialEq, Serialize, Deserialize)]
pub struct FailOp {
    pub kind: String,
    pub index: usize,
    pub sticky: bool,
    /// when set, `index` is resolved at run time as this per-mille position among the operations of `kind` that the
    /// fault-free run of the same case performs (so that the fault always lands inside the write)
    #[serde(default)]
    pub frac_pm: Option<u16>,
}

#[derive(Clone, Debug, PartialEq, Default, Serialize, Deserialize)]
pub struct ReadFaults {
    #[serde(default)]
    pub short_pm: u16,
    #[serde(default)]
    pub eintr_pm: u16,
    #[serde(default)]
    pub seed: u64,
    /// F10: one hard (non-retryable) error: armed when history operation `.0` starts, the `.1`-th read/seek
    /// call from then on fails once
    #[serde(default)]
    pub hard: Option<(u32, u32)>,
    /// error kind of the F10 fault: 0 = Other, 1 = TimedOut, 2 = WouldBlock, 3 = ConnectionReset (what a retry
    /// wrapper would call transient)
    #[serde(default)]
    pub hard_kind: u8,
}

#[derive(Clone, Debug, PartialEq, Serialize, Deserialize)]
pub struct PipeCase {
    pub kind: Kind,
    pub chroms: Vec<Chrom>,
    /// chromosome sizes supplied to the writer but never used by the data
    #[serde(default)]
    pub extra_sizes: Vec<(String, u32)>,
    pub opts: Opts,
    pub source: Source,
    pub multipass: bool,
    #[serde(default)]
    pub autosql: Option<String>,
    pub sched: Sched,
    #[serde(default)]
    pub sink: SinkFaults,
    #[serde(default)]
    pub read: ReadFaults,
    #[serde(default)]
    pub bad: Option<Bad>,
    /// uncontrolled mode: number of worker threads of a multi-thread runtime (0 = controlled current_thread)
    #[serde(default)]
    pub mt_threads: u8,
}

impl PipeCase {
    pub fn total_items(&self) -> usize {
        self.chroms.iter().map(|c| c.items.len()).sum()
    }
}

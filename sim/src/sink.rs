//! The simulated destination (`SimSink`) and the simulated file being read (`SimRead`).

use std::io::{self, Read, Seek, SeekFrom, Write};
use std::sync::{Arc, Mutex};

use crate::model::{ReadFaults, SinkFaults};
use crate::rng::Rng;

#[derive(Clone, Debug, PartialEq)]
pub enum Op {
    Write { pos: u64, data: Vec<u8> },
    Seek { to: u64 },
    Flush,
}

#[derive(Default, Clone, Debug)]
pub struct FaultCounts {
    pub short_writes: u64,
    pub eintr_writes: u64,
    pub failed_ops: u64,
    pub short_reads: u64,
    pub eintr_reads: u64,
}

pub struct SinkState {
    pub image: Vec<u8>,
    pub pos: u64,
    pub ops: Vec<Op>,
    pub n_write: usize,
    pub n_seek: usize,
    pub n_flush: usize,
    pub faults: SinkFaults,
    pub rng: Rng,
    pub counts: FaultCounts,
    pub failed_once: bool,
    pub record_data: bool,
    /// commit-on-flush destinations: the image as of the last successful flush
    pub committed: Vec<u8>,
}

/// In-memory `Write + Seek` destination that logs every operation and injects F1/F2/F5.
#[derive(Clone)]
pub struct SimSink(pub Arc<Mutex<SinkState>>);

impl SimSink {
    pub fn new(faults: &SinkFaults, record_data: bool) -> SimSink {
        SimSink(Arc::new(Mutex::new(SinkState {
            image: Vec::new(),
            pos: 0,
            ops: Vec::new(),
            n_write: 0,
            n_seek: 0,
            n_flush: 0,
            rng: Rng::new(faults.seed ^ 0x51_4b),
            faults: faults.clone(),
            counts: FaultCounts::default(),
            failed_once: false,
            record_data,
            committed: Vec::new(),
        })))
    }

    pub fn snapshot(&self) -> (Vec<u8>, Vec<Op>, FaultCounts, (usize, usize, usize)) {
        let st = self.0.lock().unwrap_or_else(|e| e.into_inner());
        (
            if st.faults.commit_on_flush { st.committed.clone() } else { st.image.clone() },
            st.ops.clone(),
            st.counts.clone(),
            (st.n_write, st.n_seek, st.n_flush),
        )
    }
}

impl SinkState {
    fn should_fail(&mut self, kind: &str, idx: usize) -> bool {
        let hit = match &self.faults.fail {
            Some(f) if f.kind == kind => {
                if f.sticky {
                    idx >= f.index
                } else {
                    idx == f.index
                }
            }
            Some(f) if f.sticky && self.failed_once => {
                // sticky failures poison every later operation of any kind
                let _ = f;
                true
            }
            _ => false,
        };
        if hit {
            self.failed_once = true;
            self.counts.failed_ops += 1;
        }
        hit
    }
}

fn injected() -> io::Error {
    io::Error::new(io::ErrorKind::Other, "injected sink failure")
}

impl Write for SimSink {
    fn write(&mut self, buf: &[u8]) -> io::Result<usize> {
        let mut st = self.0.lock().unwrap_or_else(|e| e.into_inner());
        if buf.is_empty() {
            return Ok(0);
        }
        // F2 first: an interrupted call consumes nothing and is not an "operation"
        if st.faults.eintr_pm > 0 {
            let pm = st.faults.eintr_pm as u64;
            if st.rng.below(1000) < pm {
                st.counts.eintr_writes += 1;
                return Err(io::Error::new(io::ErrorKind::Interrupted, "injected EINTR"));
            }
        }
        let idx = st.n_write;
        st.n_write += 1;
        if st.should_fail("write", idx) {
            return Err(injected());
        }
        let mut n = buf.len();
        if st.faults.short_pm > 0 && n > 1 {
            let pm = st.faults.short_pm as u64;
            if st.rng.below(1000) < pm {
                n = 1 + st.rng.below(n as u64 - 1) as usize;
                st.counts.short_writes += 1;
            }
        }
        let pos = st.pos as usize;
        if st.image.len() < pos + n {
            st.image.resize(pos + n, 0);
        }
        st.image[pos..pos + n].copy_from_slice(&buf[..n]);
        let data = if st.record_data { buf[..n].to_vec() } else { Vec::new() };
        let p = st.pos;
        st.ops.push(Op::Write { pos: p, data });
        st.pos += n as u64;
        Ok(n)
    }

    fn flush(&mut self) -> io::Result<()> {
        let mut st = self.0.lock().unwrap_or_else(|e| e.into_inner());
        let idx = st.n_flush;
        st.n_flush += 1;
        if st.should_fail("flush", idx) {
            return Err(injected());
        }
        st.ops.push(Op::Flush);
        if st.faults.commit_on_flush {
            st.committed = st.image.clone();
        }
        Ok(())
    }
}

impl Seek for SimSink {
    fn seek(&mut self, from: SeekFrom) -> io::Result<u64> {
        let mut st = self.0.lock().unwrap_or_else(|e| e.into_inner());
        let idx = st.n_seek;
        st.n_seek += 1;
        if st.should_fail("seek", idx) {
            return Err(injected());
        }
        let new = match from {
            SeekFrom::Start(p) => p as i128,
            SeekFrom::Current(d) => st.pos as i128 + d as i128,
            SeekFrom::End(d) => st.image.len() as i128 + d as i128,
        };
        if new < 0 {
            return Err(io::Error::new(io::ErrorKind::InvalidInput, "seek before start"));
        }
        st.pos = new as u64;
        let to = st.pos;
        st.ops.push(Op::Seek { to });
        Ok(st.pos)
    }
}

/// Rebuilds the destination image after only the first `k` logged operations reached it (F6).
pub fn image_after(ops: &[Op], k: usize) -> Vec<u8> {
    let mut img: Vec<u8> = Vec::new();
    for op in &ops[..k.min(ops.len())] {
        if let Op::Write { pos, data } = op {
            let pos = *pos as usize;
            if img.len() < pos + data.len() {
                img.resize(pos + data.len(), 0);
            }
            img[pos..pos + data.len()].copy_from_slice(data);
        }
    }
    img
}

pub struct ReadStats {
    pub reads: u64,
    pub seeks: u64,
    pub short_reads: u64,
    pub eintr_reads: u64,
    /// F10 countdown: Some(n) = the n-th read/seek call from now fails once
    pub arm: Option<u64>,
    pub hard_errors: u64,
    /// error kind of the F10 fault (see ReadFaults::hard_kind)
    pub hard_kind: u8,
}

pub fn hard_error_kind(k: u8) -> io::ErrorKind {
    match k % 4 {
        0 => io::ErrorKind::Other,
        1 => io::ErrorKind::TimedOut,
        2 => io::ErrorKind::WouldBlock,
        _ => io::ErrorKind::ConnectionReset,
    }
}

impl ReadStats {
    fn hard_fault_due(&mut self) -> bool {
        match self.arm {
            Some(0) => {
                self.arm = None;
                self.hard_errors += 1;
                true
            }
            Some(n) => {
                self.arm = Some(n - 1);
                false
            }
            None => false,
        }
    }
}

/// `Read + Seek + Reopen` over shared bytes with seeded short reads / `Interrupted`.
pub struct SimRead {
    data: Arc<Vec<u8>>,
    pos: u64,
    faults: ReadFaults,
    rng: Rng,
    pub stats: Arc<Mutex<ReadStats>>,
    generation: u64,
}

impl SimRead {
    pub fn new(data: Arc<Vec<u8>>, faults: &ReadFaults) -> SimRead {
        SimRead {
            data,
            pos: 0,
            rng: Rng::new(faults.seed ^ 0x7ead),
            faults: faults.clone(),
            stats: Arc::new(Mutex::new(ReadStats {
                reads: 0,
                seeks: 0,
                short_reads: 0,
                eintr_reads: 0,
                arm: None,
                hard_errors: 0,
                hard_kind: faults.hard_kind,
            })),
            generation: 0,
        }
    }
    pub fn from_vec(data: Vec<u8>) -> SimRead {
        SimRead::new(Arc::new(data), &ReadFaults::default())
    }
}

impl Read for SimRead {
    fn read(&mut self, buf: &mut [u8]) -> io::Result<usize> {
        let mut stats = self.stats.lock().unwrap_or_else(|e| e.into_inner());
        if buf.is_empty() {
            return Ok(0);
        }
        if stats.hard_fault_due() {
            return Err(io::Error::new(hard_error_kind(stats.hard_kind), "injected read error"));
        }
        if self.faults.eintr_pm > 0 && self.rng.below(1000) < self.faults.eintr_pm as u64 {
            stats.eintr_reads += 1;
            return Err(io::Error::new(io::ErrorKind::Interrupted, "injected EINTR"));
        }
        stats.reads += 1;
        let len = self.data.len() as u64;
        if self.pos >= len {
            return Ok(0);
        }
        let avail = (len - self.pos) as usize;
        let mut n = buf.len().min(avail);
        if self.faults.short_pm > 0 && n > 1 && self.rng.below(1000) < self.faults.short_pm as u64 {
            n = 1 + self.rng.below(n as u64 - 1) as usize;
            stats.short_reads += 1;
        }
        let p = self.pos as usize;
        buf[..n].copy_from_slice(&self.data[p..p + n]);
        self.pos += n as u64;
        Ok(n)
    }
}

impl Seek for SimRead {
    fn seek(&mut self, from: SeekFrom) -> io::Result<u64> {
        {
            let mut stats = self.stats.lock().unwrap_or_else(|e| e.into_inner());
            stats.seeks += 1;
            if stats.hard_fault_due() {
                return Err(io::Error::new(hard_error_kind(stats.hard_kind), "injected seek error"));
            }
        }
        let new = match from {
            SeekFrom::Start(p) => p as i128,
            SeekFrom::Current(d) => self.pos as i128 + d as i128,
            SeekFrom::End(d) => self.data.len() as i128 + d as i128,
        };
        if new < 0 {
            return Err(io::Error::new(io::ErrorKind::InvalidInput, "seek before start"));
        }
        self.pos = new as u64;
        Ok(self.pos)
    }
}

impl bigtools::utils::reopen::Reopen for SimRead {
    fn reopen(&self) -> io::Result<Self> {
        let generation = self.generation + 1;
        Ok(SimRead {
            data: self.data.clone(),
            pos: 0,
            faults: self.faults.clone(),
            rng: Rng::new(self.faults.seed ^ 0x7ead ^ generation.wrapping_mul(0x9E37_79B9)),
            stats: self.stats.clone(),
            generation,
        })
    }
}

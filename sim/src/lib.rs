//! bigsim: deterministic simulation with fault injection for bigtools.
pub mod checks;
pub mod decode;
pub mod driver;
pub mod encode;
pub mod evidence;
pub mod gen;
pub mod model;
pub mod oracle;
pub mod pipeprops;
pub mod pipesim;
pub mod props;
pub mod readsim;
pub mod report;
pub mod rng;
pub mod sched;
pub mod sink;
pub mod tfbsim;

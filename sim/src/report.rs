//! Per-run report and per-worker aggregate (merged by the driver into the evidence file).

use std::collections::BTreeMap;

use serde::{Deserialize, Serialize};

use crate::checks::Verdict;

#[derive(Clone, Debug, Default)]
pub struct RunStats {
    pub steps: u64,
    pub nonzero_decisions: u64,
    pub trace_hash: u64,
    pub sink_ops: u64,
    /// hash of the observable outcome (sink image, outputs) where the engine computes one
    pub outcome_hash: u64,
    /// the run contained real-thread (uncontrolled) executions: schedule-dependent statistics are not reproducible
    pub uncontrolled: bool,
    /// fault kinds that actually fired in this run
    pub faults: BTreeMap<String, u64>,
    pub probes: BTreeMap<String, u64>,
    /// free-form counters (reach measures), summed over runs
    pub counters: BTreeMap<String, u64>,
    /// labels of classes/states reached (set union over runs), e.g. tree shape classes
    pub classes: Vec<String>,
}

pub struct RunReport {
    pub verdict: Verdict,
    /// non-trivial by the property's stated rule
    pub nontrivial: bool,
    pub stats: RunStats,
}

#[derive(Clone, Debug, Default, Serialize, Deserialize)]
pub struct Aggregate {
    pub evaluations: u64,
    pub passed: u64,
    pub skipped: u64,
    pub skip_reasons: BTreeMap<String, u64>,
    pub nontrivial_hashes: Vec<u64>,
    pub trace_hashes: Vec<u64>,
    pub steps: u64,
    pub nonzero_decisions: u64,
    pub sink_ops: u64,
    pub faults: BTreeMap<String, u64>,
    pub probes: BTreeMap<String, u64>,
    pub counters: BTreeMap<String, u64>,
    pub classes: Vec<String>,
    pub samples: Vec<serde_json::Value>,
    pub known: BTreeMap<String, (u64, String)>,
    pub violations: Vec<ViolationRec>,
}

#[derive(Clone, Debug, Serialize, Deserialize)]
pub struct ViolationRec {
    pub run: u64,
    pub class: String,
    pub detail: String,
    pub replay: String,
}

impl Aggregate {
    pub fn merge(&mut self, o: Aggregate) {
        self.evaluations += o.evaluations;
        self.passed += o.passed;
        self.skipped += o.skipped;
        for (k, v) in o.skip_reasons {
            *self.skip_reasons.entry(k).or_insert(0) += v;
        }
        self.nontrivial_hashes.extend(o.nontrivial_hashes);
        self.trace_hashes.extend(o.trace_hashes);
        self.steps += o.steps;
        self.nonzero_decisions += o.nonzero_decisions;
        self.sink_ops += o.sink_ops;
        for (k, v) in o.faults {
            *self.faults.entry(k).or_insert(0) += v;
        }
        for (k, v) in o.probes {
            *self.probes.entry(k).or_insert(0) += v;
        }
        for (k, v) in o.counters {
            *self.counters.entry(k).or_insert(0) += v;
        }
        for c in o.classes {
            if !self.classes.contains(&c) {
                self.classes.push(c);
            }
        }
        for s in o.samples {
            if self.samples.len() < 3 {
                self.samples.push(s);
            }
        }
        for (k, (n, ex)) in o.known {
            let e = self.known.entry(k).or_insert((0, ex));
            e.0 += n;
        }
        self.violations.extend(o.violations);
    }
}

//! clisim: the command-line tools called in-process through their public entry functions, with
//! argument structs parsed by clap from (native or UCSC-style) argument vectors. `-t 1` runs on the
//! tools' own current_thread runtime; `-t N` runs on the simulator's current_thread runtime through the
//! cfg-gated runtime override (H5) under seeded yield decisions. C16, C19 (stored schema), C15, C17
//! and the converter half of C11.

use std::collections::BTreeMap;
use std::ffi::OsString;
use std::path::{Path, PathBuf};
use std::sync::Arc;

use clap::Parser;
use serde::{Deserialize, Serialize};

use bigtools::utils::cli::compat_args;
use bigtools::{BigBedRead, BigWigRead};

use crate::checks::{expected_field_count, viol, Verdict};
use crate::gen::{self, Profile};
use crate::model::*;
use crate::oracle::*;
use crate::pipesim::{self, bed_line, panic_message, wig_line, WriteResult};
use crate::report::{RunReport, RunStats};
use crate::rng::Rng;
use crate::sched;

fn parse_args<T: Parser>(argv: &[String]) -> Result<T, String> {
    T::try_parse_from(compat_args(argv.iter().map(OsString::from))).map_err(|e| format!("argument parsing failed for {:?}: {}", argv, e))
}

fn p2s(p: &Path) -> String {
    p.to_string_lossy().to_string()
}

fn install_sim_runtime() {
    bigtools::verif::install_runtime(Some(Arc::new(|| sched::current_thread_runtime())));
}

// --------------------------------------------------------------------------------- C16 / C19

#[derive(Clone, Debug, PartialEq, Serialize, Deserialize)]
pub struct CliCase {
    pub kind: Kind,
    pub chroms: Vec<Chrom>,
    pub extra_sizes: Vec<(String, u32)>,
    pub nthreads: u8,
    pub parallel: String,
    pub single_pass: bool,
    pub inmemory: bool,
    pub uncompressed: bool,
    pub block_size: Option<u32>,
    pub items_per_slot: Option<u32>,
    pub zooms: Option<Vec<u32>>,
    pub nzooms: Option<u32>,
    pub sorted_start: bool,
    pub ucsc_style: bool,
    pub read_threads: u8,
    pub read_inmemory: bool,
    /// (chromosome index, start, end)
    pub restrict: Option<(usize, Option<u32>, Option<u32>)>,
    pub autosql: Option<String>,
    pub sched: Sched,
    /// C19: only check the stored schema / field count
    #[serde(default)]
    pub schema_only: bool,
    /// run the conversions through the built multicall binary (`bigtools <subcommand> ...`) as subprocesses
    /// (real threads for -t N: uncontrolled; covers the dispatch in bin/bigtools.rs)
    #[serde(default)]
    pub via_binary: bool,
    /// the forward conversion reads its text from standard input (0 = from the file; 1 = `-`, 2 = `stdin`,
    /// 3 = `/dev/stdin`): run through the built binary with the input piped in
    #[serde(default)]
    pub stdin_input: u8,
    /// with `stdin_input`: the text arrives through a pipe in two pieces, cut after this many bytes, with a pause in
    /// between (0 = the whole file at once)
    #[serde(default)]
    pub stdin_split: u32,
}

pub fn gen_cli(rng: &mut Rng, prop: &str) -> CliCase {
    let mut p = Profile::default();
    p.zero_len_pm = 0;
    p.bed_zero_zero_pm = 0;
    p.max_items = if prop == "C16" && rng.chance(1, 5) { 1200 } else { 80 };
    p.huge = false;
    p.io_chaos = false;
    if prop == "C19" {
        p.kind = Some(Kind::Bed);
    }
    let pc = gen::gen_pipe_case(rng, &p);
    let mut chroms = pc.chroms.clone();
    let mut sorted_start = !pc.opts.sort_all;
    let mut autosql = None;
    if prop == "C19" {
        // uniform number of extra columns 0..40
        let n = rng.below(41) as usize;
        for c in &mut chroms {
            for it in &mut c.items {
                let cols: Vec<String> = (0..n).map(|k| format!("v{}_{}", k, it.s % 7)).collect();
                it.rest = cols.join("\t");
            }
        }
        if rng.chance(1, 2) {
            let nf = rng.range(3, 12) as usize;
            let toks = crate::textsim::gen_schema_tokens(rng, nf);
            let mut text = String::new();
            if rng.chance(1, 3) {
                // several declarations: the field count is the one of the last declaration
                for _ in 0..rng.range(1, 5) {
                    let n = rng.range(1, 4) as usize;
                    text.push_str(&crate::textsim::gen_schema_tokens(rng, n).join(" "));
                    text.push('\n');
                }
            }
            text.push_str(&toks.join(" "));
            autosql = Some(text);
        }
    }
    if pc.kind == Kind::Bed {
        // canonical BED text: names are plain, rest has no leading/trailing whitespace
        for c in &mut chroms {
            for it in &mut c.items {
                it.rest = it.rest.trim().to_string();
            }
        }
    }
    // chromosome names in the text must not contain whitespace; the pool has none
    let nthreads = *rng.pick(&[1u8, 1, 2, 3, 4, 6, 8, 16]);
    let restrict = if rng.chance(1, 3) {
        let c = rng.below(chroms.len() as u64) as usize;
        let len = chroms[c].len;
        let s = if rng.chance(2, 3) { Some(rng.below(len as u64) as u32) } else { None };
        let e = if rng.chance(2, 3) {
            Some(rng.range(s.unwrap_or(0) as u64 + 1, len as u64) as u32)
        } else {
            None
        };
        Some((c, s, e))
    } else {
        None
    };
    if sorted_start && rng.chance(1, 2) {
        // exercise the default too
        chroms.sort_by(|a, b| a.name.cmp(&b.name));
        sorted_start = false;
    }
    let c = CliCase {
        kind: pc.kind,
        chroms,
        extra_sizes: pc.extra_sizes.clone(),
        nthreads,
        parallel: rng.pick(&["auto", "yes", "no"]).to_string(),
        single_pass: rng.chance(1, 2),
        inmemory: rng.chance(1, 2),
        uncompressed: rng.chance(1, 3),
        block_size: if rng.chance(1, 2) { Some(*rng.pick(&[2u32, 3, 5, 16, 256])) } else { None },
        items_per_slot: if rng.chance(1, 2) { Some(*rng.pick(&[1u32, 2, 7, 64, 1024])) } else { None },
        zooms: if rng.chance(1, 3) { Some(vec![*rng.pick(&[5u32, 10, 50]), 200, 1000]) } else { None },
        nzooms: if rng.chance(1, 4) { Some(rng.below(6) as u32) } else { None },
        sorted_start,
        ucsc_style: rng.chance(1, 3),
        read_threads: *rng.pick(&[1u8, 1, 2, 4, 6, 16]),
        read_inmemory: rng.chance(1, 2),
        restrict,
        autosql,
        sched: if rng.chance(3, 4) {
            Sched::Seeded {
                policy: rng.below(4) as u8,
                seed: rng.next_u64(),
            }
        } else {
            Sched::Calm
        },
        schema_only: prop == "C19",
        via_binary: prop == "C16" && rng.chance(1, 10),
        stdin_input: if rng.chance(1, 10) { 1 + rng.below(3) as u8 } else { 0 },
        stdin_split: 0,
    };
    let mut c = c;
    if c.stdin_input != 0 {
        if rng.chance(1, 3) {
            // a first line longer than the 8 KiB buffer in front of standard input
            let long = "L".repeat(rng.range(8_200, 20_000) as usize);
            if let Some(it) = c.chroms.iter_mut().flat_map(|ch| ch.items.iter_mut()).next() {
                if c.kind == Kind::Bed {
                    it.rest = if it.rest.is_empty() { long } else { format!("{}{}", long, &it.rest) };
                }
            }
        }
        if rng.chance(1, 3) {
            // slow producer: the first piece ends inside the first line (or somewhere in the first 300 bytes)
            c.stdin_split = 1 + rng.below(300) as u32;
        }
    }
    c
}

pub fn input_text(kind: Kind, chroms: &[Chrom]) -> String {
    let mut s = String::new();
    for c in chroms {
        for it in &c.items {
            match kind {
                Kind::Wig => s.push_str(&wig_line(&c.name, it)),
                Kind::Bed => s.push_str(&bed_line(&c.name, it)),
            }
        }
    }
    s
}

fn sizes_text(c: &CliCase) -> String {
    let mut s = String::new();
    for ch in &c.chroms {
        s.push_str(&format!("{}\t{}\n", ch.name, ch.len));
    }
    for (n, l) in &c.extra_sizes {
        if !c.chroms.iter().any(|ch| ch.name == *n) {
            s.push_str(&format!("{} {}\n", n, l));
        }
    }
    s
}

fn write_argv(c: &CliCase, tool: &str, input: &Path, sizes: &Path, out: &Path, sqlfile: Option<&Path>) -> Vec<String> {
    let mut a = vec![tool.to_string(), p2s(input), p2s(sizes), p2s(out)];
    a.push("-t".into());
    a.push(c.nthreads.to_string());
    a.push("-p".into());
    a.push(c.parallel.clone());
    if c.single_pass {
        a.push("--single-pass".into());
    }
    if c.inmemory {
        a.push("--inmemory".into());
    }
    if c.uncompressed {
        a.push(if c.ucsc_style { "-unc".into() } else { "--uncompressed".into() });
    }
    if let Some(b) = c.block_size {
        if c.ucsc_style {
            a.push(format!("-blockSize={}", b));
        } else {
            a.push("--block-size".into());
            a.push(b.to_string());
        }
    }
    if let Some(i) = c.items_per_slot {
        if c.ucsc_style {
            a.push(format!("-itemsPerSlot={}", i));
        } else {
            a.push("--items-per-slot".into());
            a.push(i.to_string());
        }
    }
    if let Some(z) = &c.zooms {
        let list = z.iter().map(|x| x.to_string()).collect::<Vec<_>>().join(",");
        if c.ucsc_style {
            a.push(format!("-zooms={}", list));
        } else {
            a.push("--zooms".into());
            a.push(list);
        }
    }
    if let Some(n) = c.nzooms {
        a.push("-z".into());
        a.push(n.to_string());
    }
    if c.sorted_start {
        a.push("-s".into());
        a.push("start".into());
    }
    if let Some(f) = sqlfile {
        if c.ucsc_style {
            a.push(format!("-as={}", p2s(f)));
        } else {
            a.push("--autosql".into());
            a.push(p2s(f));
        }
    }
    a
}

fn read_argv(c: &CliCase, tool: &str, input: &Path, out: &Path) -> Vec<String> {
    let mut a = vec![tool.to_string(), p2s(input), p2s(out)];
    a.push("-t".into());
    a.push(c.read_threads.to_string());
    if c.read_inmemory {
        a.push("--inmemory".into());
    }
    if let Some((ci, s, e)) = &c.restrict {
        let name = &c.chroms[*ci].name;
        if c.ucsc_style {
            a.push(format!("-chrom={}", name));
            if let Some(s) = s {
                a.push(format!("-start={}", s));
            }
            if let Some(e) = e {
                a.push(format!("-end={}", e));
            }
        } else {
            a.push("--chrom".into());
            a.push(name.clone());
            if let Some(s) = s {
                a.push("--start".into());
                a.push(s.to_string());
            }
            if let Some(e) = e {
                a.push("--end".into());
                a.push(e.to_string());
            }
        }
    }
    a
}

fn parse_back(kind: Kind, text: &str) -> Result<Vec<(String, Item)>, String> {
    let mut out = vec![];
    for line in text.lines() {
        let mut f = line.splitn(4, '\t');
        let chrom = f.next().ok_or("missing chrom")?.to_string();
        let s: u32 = f.next().ok_or("missing start")?.parse().map_err(|_| format!("bad start in {:?}", line))?;
        let e: u32 = f.next().ok_or("missing end")?.parse().map_err(|_| format!("bad end in {:?}", line))?;
        let rest = f.next().unwrap_or("");
        match kind {
            Kind::Wig => {
                let v: f32 = rest.parse().map_err(|_| format!("bad value in {:?}", line))?;
                out.push((chrom, Item::wig(s, e, v)));
            }
            Kind::Bed => out.push((chrom, Item::bed(s, e, rest))),
        }
    }
    Ok(out)
}

fn wig_eq(a: &Item, b: &Item) -> bool {
    a.s == b.s && a.e == b.e && (a.v() == b.v() || a.vb == b.vb)
}

pub fn run_cli(c: &CliCase) -> RunReport {
    let mut st = RunStats::default();
    let _ = bigtools::verif::take_probes();
    let shared = sched::install(&c.sched);
    if c.nthreads > 1 || c.read_threads > 1 {
        install_sim_runtime();
    }
    let res = std::panic::catch_unwind(std::panic::AssertUnwindSafe(|| run_cli_inner(c, &mut st)));
    sched::uninstall();
    {
        let s = shared.lock().unwrap_or_else(|e| e.into_inner());
        st.steps = s.steps;
        st.nonzero_decisions = s.nonzero;
        st.trace_hash = s.trace_hash;
    }
    for (k, v) in bigtools::verif::take_probes() {
        *st.probes.entry(k.to_string()).or_insert(0) += v;
    }
    let verdict = match res {
        Ok(v) => v,
        Err(p) => viol("tool-panic", panic_message(p)),
    };
    // a subprocess of the built binary with -t N runs on real threads: the oracle (exact round trip) does not
    // depend on the schedule, but the run cannot be replayed exactly
    let real_threads = st.counters.contains_key("via_multicall_binary(uncontrolled)")
        && ((c.via_binary && c.read_threads > 1) || c.nthreads > 1);
    let verdict = match verdict {
        Verdict::Violation { class, detail } if real_threads => Verdict::Violation {
            class: format!("{}-uncontrolled", class),
            detail,
        },
        v => v,
    };
    if real_threads {
        st.uncontrolled = true;
    }
    *st.counters.entry(format!("write_threads_{}", c.nthreads)).or_insert(0) += 1;
    *st.counters.entry(format!("read_threads_{}", c.read_threads)).or_insert(0) += 1;
    *st.counters.entry(format!("parallel_{}", c.parallel)).or_insert(0) += 1;
    if c.ucsc_style {
        *st.counters.entry("ucsc_style_flags".into()).or_insert(0) += 1;
    }
    if c.restrict.is_some() {
        *st.counters.entry("restricted_output".into()).or_insert(0) += 1;
    }
    RunReport {
        verdict,
        nontrivial: c.chroms.iter().map(|x| x.items.len()).sum::<usize>() >= 2,
        stats: st,
    }
}

fn run_cli_inner(c: &CliCase, _st: &mut RunStats) -> Verdict {
    let dir = match tempfile::tempdir() {
        Ok(d) => d,
        Err(e) => return Verdict::Skip(format!("HARNESS: tempdir: {}", e)),
    };
    let input = dir.path().join(if c.kind == Kind::Wig { "in.bedGraph" } else { "in.bed" });
    let sizes = dir.path().join("chrom.sizes");
    let big = dir.path().join(if c.kind == Kind::Wig { "out.bw" } else { "out.bb" });
    let back = dir.path().join("back.txt");
    let text = input_text(c.kind, &c.chroms);
    if std::fs::write(&input, &text).is_err() || std::fs::write(&sizes, sizes_text(c)).is_err() {
        return Verdict::Skip("HARNESS: cannot write scratch input".into());
    }
    let sqlfile = match &c.autosql {
        Some(s) => {
            let f = dir.path().join("schema.as");
            if std::fs::write(&f, s).is_err() {
                return Verdict::Skip("HARNESS: cannot write schema".into());
            }
            Some(f)
        }
        None => None,
    };
    let found_binary = std::env::var("VERIF_BIGTOOLS_BIN").ok().filter(|p| Path::new(p).exists());
    // input on standard input needs a process of its own
    let stdin_word = match (c.stdin_input, found_binary.is_some()) {
        (1, true) => Some("-"),
        (2, true) => Some("stdin"),
        (3, true) => Some("/dev/stdin"),
        _ => None,
    };
    let binary = if c.via_binary || stdin_word.is_some() { found_binary } else { None };
    let run_binary = |argv: &[String], feed: Option<&Path>| -> Result<(), String> {
        // `bigtools <subcommand> <args>`: the tool name becomes the subcommand
        let bin = binary.as_ref().unwrap();
        // half of the time through a link named like the kent tool (dispatch on the program name, mixed case)
        let kent = match argv[0].as_str() {
            "bedgraphtobigwig" => "bedGraphToBigWig",
            "bedtobigbed" => "bedToBigBed",
            "bigwigtobedgraph" => "bigWigToBedGraph",
            "bigbedtobed" => "bigBedToBed",
            other => other,
        };
        let link = dir.path().join(kent);
        let use_link = (c.nthreads as usize + c.read_threads as usize + c.chroms.len()) % 2 == 0
            && (link.exists() || std::os::unix::fs::symlink(bin, &link).is_ok());
        let mut cmd = if use_link {
            let mut cmd = std::process::Command::new(&link);
            cmd.args(&argv[1..]);
            cmd
        } else {
            let mut cmd = std::process::Command::new(bin);
            cmd.args(argv);
            cmd
        };
        let mut pieces = None;
        match feed {
            Some(f) if c.stdin_split > 0 => {
                let bytes = std::fs::read(f).map_err(|e| format!("HARNESS: cannot read {}: {}", f.display(), e))?;
                pieces = Some((bytes, c.stdin_split as usize, 40u64));
            }
            Some(f) => {
                let file = std::fs::File::open(f).map_err(|e| format!("HARNESS: cannot open {}: {}", f.display(), e))?;
                cmd.stdin(std::process::Stdio::from(file));
            }
            None => {
                cmd.stdin(std::process::Stdio::null());
            }
        }
        let out = pipesim::output_with_deadline_fed(cmd, 60, pieces).map_err(|e| format!("cannot run {} to completion: {}", bin, e))?;
        if out.status.success() {
            Ok(())
        } else {
            Err(format!("exit status {:?}: {}", out.status.code(), String::from_utf8_lossy(&out.stderr).chars().take(300).collect::<String>()))
        }
    };
    if binary.is_some() {
        *_st.counters.entry("via_multicall_binary(uncontrolled)".into()).or_insert(0) += 1;
    }
    if stdin_word.is_some() {
        *_st.counters.entry("input_on_stdin".into()).or_insert(0) += 1;
        if c.stdin_split > 0 {
            *_st.counters.entry("input_on_stdin_in_two_pieces(real pause)".into()).or_insert(0) += 1;
        }
    }
    let (fwd_input, feed): (std::path::PathBuf, Option<&Path>) = match stdin_word {
        Some(w) => (std::path::PathBuf::from(w), Some(input.as_path())),
        None => (input.clone(), None),
    };
    // forward conversion
    let r = match c.kind {
        Kind::Wig if binary.is_some() => run_binary(&write_argv(c, "bedgraphtobigwig", &fwd_input, &sizes, &big, None), feed),
        Kind::Bed if binary.is_some() => {
            run_binary(&write_argv(c, "bedtobigbed", &fwd_input, &sizes, &big, sqlfile.as_deref()), feed)
        }
        Kind::Wig => {
            let argv = write_argv(c, "bedgraphtobigwig", &input, &sizes, &big, None);
            match parse_args::<bigtools::utils::cli::bedgraphtobigwig::BedGraphToBigWigArgs>(&argv) {
                Ok(a) => bigtools::utils::cli::bedgraphtobigwig::bedgraphtobigwig(a).map_err(|e| e.to_string()),
                Err(e) => return viol("flags-rejected", e),
            }
        }
        Kind::Bed => {
            let argv = write_argv(c, "bedtobigbed", &input, &sizes, &big, sqlfile.as_deref());
            match parse_args::<bigtools::utils::cli::bedtobigbed::BedToBigBedArgs>(&argv) {
                Ok(a) => bigtools::utils::cli::bedtobigbed::bedtobigbed(a).map_err(|e| e.to_string()),
                Err(e) => return viol("flags-rejected", e),
            }
        }
    };
    if let Err(e) = r {
        return viol("forward-conversion-failed", format!("{}", e));
    }
    if c.kind == Kind::Bed {
        // C19: stored schema
        let mut bb = match BigBedRead::open_file(&big) {
            Ok(b) => b,
            Err(e) => return viol("forward-conversion-failed", format!("output not readable: {}", e)),
        };
        let stored = match bb.autosql() {
            Ok(Some(s)) => s,
            Ok(None) => return viol("schema", "no autoSql stored".into()),
            Err(e) => return viol("schema", format!("autosql(): {}", e)),
        };
        let fc = bb.info().header.field_count;
        // the same two facts through a reader whose reads are short and interrupted (F3/F4): nothing may change
        {
            let bytes = match std::fs::read(&big) {
                Ok(b) => b,
                Err(e) => return Verdict::Skip(format!("HARNESS: cannot read {}: {}", big.display(), e)),
            };
            let rf = ReadFaults {
                short_pm: 600,
                eintr_pm: 200,
                seed: crate::rng::hash_bytes(stored.as_bytes()) ^ c.nthreads as u64,
                ..ReadFaults::default()
            };
            match BigBedRead::open(crate::sink::SimRead::new(Arc::new(bytes), &rf)) {
                Ok(mut b2) => {
                    let fc2 = b2.info().header.field_count;
                    match b2.autosql() {
                        Ok(Some(s2)) if s2 == stored && fc2 == fc => {}
                        Ok(other) => {
                            return viol(
                                "schema",
                                format!(
                                    "through a reader with short and interrupted reads the stored schema reads as {:?} (field count {}), through a file as {:?} (field count {})",
                                    other.map(|s| s.chars().take(80).collect::<String>()),
                                    fc2,
                                    stored.chars().take(80).collect::<String>(),
                                    fc
                                ),
                            )
                        }
                        Err(e) => return viol("schema", format!("autosql() through a reader with short and interrupted reads: {}", e)),
                    }
                }
                Err(e) => return viol("schema", format!("open through a reader with short and interrupted reads: {}", e)),
            }
        }
        match &c.autosql {
            Some(supplied) => {
                if stored != *supplied {
                    return viol("schema", format!("supplied schema not stored verbatim: {:?} vs {:?}", stored, supplied));
                }
                if let Some(want) = expected_field_count(&c.autosql) {
                    if fc != want {
                        return viol("schema", format!("field_count {} but the supplied schema declares {}", fc, want));
                    }
                }
            }
            None => {
                let first = c.chroms.iter().flat_map(|ch| ch.items.iter()).next();
                let extra = first.map(|i| if i.rest.is_empty() { 0 } else { i.rest.split('\t').count() }).unwrap_or(0);
                let declared = expected_field_count(&Some(stored.clone()));
                if declared != Some(3 + extra as u16) {
                    return viol(
                        "schema",
                        format!("generated schema declares {:?} fields, the first BED line has 3+{} columns", declared, extra),
                    );
                }
                if fc != 3 + extra as u16 {
                    return viol("schema", format!("header field_count {} but the first BED line has 3+{} columns", fc, extra));
                }
                if bigtools::bed::autosql::parse::parse_autosql(&stored).is_err() {
                    return viol("schema", format!("generated schema does not parse: {:?}", stored));
                }
            }
        }
        if c.schema_only {
            return Verdict::Pass;
        }
    }
    // the multi-threaded converters hand every chromosome task a reopened reader: a seeded history of seeks and
    // reads over a handle, its reopened copy and a copy of the copy must behave like three independent cursors
    if let Err(m) = reopen_history_check(&big, crate::rng::hash_bytes(text.as_bytes()) ^ c.read_threads as u64) {
        return viol("reopened-handle-not-independent", m);
    }
    // back conversion
    let r = match c.kind {
        Kind::Wig if c.via_binary && binary.is_some() => run_binary(&read_argv(c, "bigwigtobedgraph", &big, &back), None),
        Kind::Bed if c.via_binary && binary.is_some() => run_binary(&read_argv(c, "bigbedtobed", &big, &back), None),
        Kind::Wig => {
            let argv = read_argv(c, "bigwigtobedgraph", &big, &back);
            match parse_args::<bigtools::utils::cli::bigwigtobedgraph::BigWigToBedGraphArgs>(&argv) {
                Ok(a) => bigtools::utils::cli::bigwigtobedgraph::bigwigtobedgraph(a).map_err(|e| e.to_string()),
                Err(e) => return viol("flags-rejected", e),
            }
        }
        Kind::Bed => {
            let argv = read_argv(c, "bigbedtobed", &big, &back);
            match parse_args::<bigtools::utils::cli::bigbedtobed::BigBedToBedArgs>(&argv) {
                Ok(a) => bigtools::utils::cli::bigbedtobed::bigbedtobed(a).map_err(|e| e.to_string()),
                Err(e) => return viol("flags-rejected", e),
            }
        }
    };
    if let Err(e) = r {
        return viol("back-conversion-failed", format!("{}", e));
    }
    let back_text = match std::fs::read_to_string(&back) {
        Ok(t) => t,
        Err(e) => return viol("back-conversion-failed", format!("no output: {}", e)),
    };
    let got = match parse_back(c.kind, &back_text) {
        Ok(g) => g,
        Err(e) => return viol("round-trip", format!("output does not parse: {}", e)),
    };
    // expectation
    match &c.restrict {
        None => {
            let want: Vec<(String, Item)> = c
                .chroms
                .iter()
                .flat_map(|ch| ch.items.iter().map(move |i| (ch.name.clone(), i.clone())))
                .collect();
            if got.len() != want.len() {
                return viol("round-trip", format!("{} records back, {} in the input", got.len(), want.len()));
            }
            for (k, (g, w)) in got.iter().zip(&want).enumerate() {
                let same = g.0 == w.0
                    && match c.kind {
                        Kind::Wig => wig_eq(&g.1, &w.1),
                        Kind::Bed => g.1 == w.1,
                    };
                if !same {
                    return viol("round-trip", format!("record {}: got {:?}, input {:?}", k, g, w));
                }
            }
        }
        Some((ci, s, e)) => {
            let ch = &c.chroms[*ci];
            let s = s.unwrap_or(0);
            let e = e.unwrap_or(ch.len);
            if got.iter().any(|(n, _)| *n != ch.name) {
                return viol("restricted", "output holds records of other chromosomes".into());
            }
            let got_items: Vec<Item> = got.into_iter().map(|(_, i)| i).collect();
            match c.kind {
                Kind::Wig => {
                    let want = expect_interval(&ch.items, s, e);
                    if got_items.len() != want.len() || !got_items.iter().zip(&want).all(|(a, b)| wig_eq(a, b)) {
                        return viol(
                            "restricted",
                            format!("{}:[{},{}) gave {:?}, the range query gives {:?}", ch.name, s, e, got_items.len(), want.len()),
                        );
                    }
                }
                Kind::Bed => {
                    let mut gi = 0;
                    for it in &ch.items {
                        if gi < got_items.len() && got_items[gi] == *it {
                            if !bed_may(it, s, e) {
                                return viol("restricted", format!("{}:[{},{}) returned entry [{},{}) outside", ch.name, s, e, it.s, it.e));
                            }
                            gi += 1;
                        } else if bed_must(it, s, e) {
                            return viol("restricted", format!("{}:[{},{}) misses entry [{},{})", ch.name, s, e, it.s, it.e));
                        }
                    }
                    if gi != got_items.len() {
                        return viol("restricted", format!("{}:[{},{}) returned unexpected entries", ch.name, s, e));
                    }
                }
            }
        }
    }
    Verdict::Pass
}

/// `Reopen` contract of the file type the tools read through ("independent with respect to seeks and reads from
/// the original object"), as a deterministic history: interleaved seeks and reads on three handles against three
/// model cursors.
fn reopen_history_check(path: &Path, seed: u64) -> Result<(), String> {
    use bigtools::utils::reopen::{Reopen, ReopenableFile};
    use std::io::{Read, Seek, SeekFrom};
    let content = std::fs::read(path).map_err(|e| format!("HARNESS: cannot read {}: {}", path.display(), e))?;
    if content.is_empty() {
        return Ok(());
    }
    let open = || -> std::io::Result<ReopenableFile> {
        Ok(ReopenableFile {
            path: path.to_path_buf(),
            file: std::fs::File::open(path)?,
        })
    };
    let mut rng = Rng::new(seed);
    let mut h0 = open().map_err(|e| format!("open: {}", e))?;
    // the original is somewhere in the file when the copies are made
    let first = rng.below(content.len() as u64);
    h0.seek(SeekFrom::Start(first)).map_err(|e| format!("seek: {}", e))?;
    let h1 = h0.reopen().map_err(|e| format!("reopen: {}", e))?;
    let h2 = h1.reopen().map_err(|e| format!("reopen: {}", e))?;
    let mut handles = [h0, h1, h2];
    let mut model = [first, 0u64, 0u64];
    for step in 0..(6 + rng.below(10)) {
        let k = rng.below(3) as usize;
        if rng.chance(1, 2) {
            let to = rng.below(content.len() as u64);
            handles[k].seek(SeekFrom::Start(to)).map_err(|e| format!("seek: {}", e))?;
            model[k] = to;
        } else {
            let want = (1 + rng.below(24)) as usize;
            let mut buf = vec![0u8; want];
            let n = handles[k].read(&mut buf).map_err(|e| format!("read: {}", e))?;
            let at = model[k] as usize;
            let avail = content.len().saturating_sub(at).min(want);
            if n > avail || (n == 0 && avail > 0) || buf[..n] != content[at..at + n] {
                return Err(format!(
                    "step {}: handle {} (0 = original, 1 = reopened, 2 = reopened copy) read {} bytes that are not the file's bytes at its own position {} (positions by the model: {:?})",
                    step, k, n, at, model
                ));
            }
            model[k] += n as u64;
        }
    }
    Ok(())
}

pub fn shrink_cli(c: &CliCase) -> Vec<CliCase> {
    let mut out = vec![];
    let mut push = |f: &dyn Fn(&mut CliCase)| {
        let mut n = c.clone();
        f(&mut n);
        if n != *c {
            out.push(n);
        }
    };
    push(&|n| n.sched = Sched::Calm);
    push(&|n| n.stdin_input = 0);
    push(&|n| n.stdin_split = 0);
    push(&|n| n.via_binary = false);
    push(&|n| n.nthreads = 1);
    push(&|n| n.read_threads = 1);
    push(&|n| n.ucsc_style = false);
    push(&|n| n.restrict = None);
    push(&|n| n.parallel = "no".into());
    push(&|n| n.single_pass = true);
    push(&|n| n.inmemory = true);
    push(&|n| n.uncompressed = true);
    push(&|n| n.block_size = None);
    push(&|n| n.items_per_slot = None);
    push(&|n| n.zooms = None);
    push(&|n| n.nzooms = None);
    push(&|n| n.extra_sizes.clear());
    for k in 0..c.chroms.len() {
        if c.chroms.len() > 1 && c.restrict.as_ref().map(|r| r.0 != k).unwrap_or(true) {
            push(&move |n| {
                n.chroms.remove(k);
                if let Some(r) = &mut n.restrict {
                    if r.0 > k {
                        r.0 -= 1;
                    }
                }
            });
        }
    }
    for k in 0..c.chroms.len() {
        let n_items = c.chroms[k].items.len();
        if n_items > 1 {
            push(&move |n| n.chroms[k].items.truncate(n_items / 2));
            push(&move |n| {
                n.chroms[k].items.drain(0..n_items / 2);
            });
            if n_items <= 10 {
                for j in 0..n_items {
                    push(&move |n| {
                        n.chroms[k].items.remove(j);
                    });
                }
            }
        }
    }
    out
}

// ----------------------------------------------------------------- C11: converter determinism

#[derive(Clone, Debug, PartialEq, Serialize, Deserialize)]
pub struct ConvCase {
    pub file: PipeCase,
    pub nthreads: u8,
    pub inmemory: bool,
    pub sched: Sched,
    /// F10 in the converters: the multi-threaded path reads through SimRead and the n-th read/seek call after
    /// opening (counted over all reopened per-task readers) fails once
    #[serde(default)]
    pub hard: Option<u32>,
    #[serde(default)]
    pub hard_kind: u8,
}

pub fn gen_conv(rng: &mut Rng) -> ConvCase {
    let mut p = Profile::default();
    p.zero_len_pm = 0;
    p.bed_zero_zero_pm = 0;
    // a third of the files has chromosomes whose text exceeds the converters' 8 KiB write buffer, so that the
    // staging buffer holds flushed data when the redirect arrives (mid-stream migration)
    p.max_items = if rng.chance(1, 3) { 1500 } else { 150 };
    p.io_chaos = false;
    p.sched_chaos = false;
    p.all_sources = false;
    let mut file = gen::gen_pipe_case(rng, &p);
    file.sched = Sched::Calm;
    file.sink = SinkFaults::default();
    file.read = ReadFaults::default();
    let mut cc = ConvCase {
        file,
        nthreads: rng.range(2, 16) as u8,
        inmemory: rng.chance(1, 2),
        sched: Sched::Seeded {
            policy: rng.below(4) as u8,
            seed: rng.next_u64(),
        },
        hard: None,
        hard_kind: 0,
    };
    if rng.chance(1, 5) {
        cc.hard = Some(rng.below(60) as u32);
        cc.hard_kind = rng.below(4) as u8;
    }
    cc
}

pub fn run_conv(cc: &ConvCase) -> RunReport {
    let mut st = RunStats::default();
    let out = pipesim::run_write(&cc.file, false);
    if out.result != WriteResult::Ok {
        return RunReport {
            verdict: Verdict::Skip(format!("file could not be produced: {:?}", out.result)),
            nontrivial: false,
            stats: st,
        };
    }
    let dir = match tempfile::tempdir() {
        Ok(d) => d,
        Err(e) => {
            return RunReport {
                verdict: Verdict::Skip(format!("HARNESS: tempdir: {}", e)),
                nontrivial: false,
                stats: st,
            }
        }
    };
    let big = dir.path().join("in.big");
    let _ = std::fs::write(&big, &out.image);
    let single = dir.path().join("single.txt");
    let multi = dir.path().join("multi.txt");
    let _ = bigtools::verif::take_probes();
    let res = std::panic::catch_unwind(std::panic::AssertUnwindSafe(|| -> Result<(), String> {
        // reference: single-threaded path
        match cc.file.kind {
            Kind::Wig => {
                let r = BigWigRead::open_file(&big).map_err(|e| e.to_string())?;
                bigtools::utils::cli::bigwigtobedgraph::write_bg_singlethreaded(
                    r,
                    std::fs::File::create(&single).map_err(|e| e.to_string())?,
                    None,
                    None,
                    None,
                )
                .map_err(|e| e.to_string())?;
            }
            Kind::Bed => {
                let r = BigBedRead::open_file(&big).map_err(|e| e.to_string())?;
                bigtools::utils::cli::bigbedtobed::write_bed_singlethreaded(
                    r,
                    std::fs::File::create(&single).map_err(|e| e.to_string())?,
                    None,
                    None,
                    None,
                    None,
                )
                .map_err(|e| e.to_string())?;
            }
        }
        Ok(())
    }));
    match res {
        Ok(Ok(())) => {}
        Ok(Err(e)) => {
            return RunReport {
                verdict: viol("converter-failed", format!("single-threaded path: {}", e)),
                nontrivial: true,
                stats: st,
            }
        }
        Err(p) => {
            return RunReport {
                verdict: viol("converter-panic", panic_message(p)),
                nontrivial: true,
                stats: st,
            }
        }
    }
    // multi-threaded path on the simulator's runtime
    let shared = sched::install(&cc.sched);
    install_sim_runtime();
    let sim_stats: std::cell::RefCell<Option<Arc<std::sync::Mutex<crate::sink::ReadStats>>>> = std::cell::RefCell::new(None);
    let res = std::panic::catch_unwind(std::panic::AssertUnwindSafe(|| -> Result<(), String> {
        if let Some(n) = cc.hard {
            // the same conversion with the file behind SimRead and one hard read/seek error after opening
            let rf = ReadFaults {
                hard_kind: cc.hard_kind,
                ..ReadFaults::default()
            };
            let rd = crate::sink::SimRead::new(Arc::new(out.image.clone()), &rf);
            let stats = rd.stats.clone();
            *sim_stats.borrow_mut() = Some(stats.clone());
            let arm = move || stats.lock().unwrap_or_else(|e| e.into_inner()).arm = Some(n as u64);
            return match cc.file.kind {
                Kind::Wig => {
                    let r = BigWigRead::open(rd).map_err(|e| e.to_string())?;
                    arm();
                    bigtools::utils::cli::bigwigtobedgraph::write_bg(
                        r,
                        std::fs::File::create(&multi).map_err(|e| e.to_string())?,
                        cc.inmemory,
                        cc.nthreads as usize,
                    )
                    .map_err(|e| e.to_string())
                }
                Kind::Bed => {
                    let r = BigBedRead::open(rd).map_err(|e| e.to_string())?;
                    arm();
                    bigtools::utils::cli::bigbedtobed::write_bed(
                        r,
                        std::fs::File::create(&multi).map_err(|e| e.to_string())?,
                        cc.inmemory,
                        cc.nthreads as usize,
                    )
                    .map_err(|e| e.to_string())
                }
            };
        }
        match cc.file.kind {
            Kind::Wig => {
                let r = BigWigRead::open_file(&big).map_err(|e| e.to_string())?;
                bigtools::utils::cli::bigwigtobedgraph::write_bg(
                    r,
                    std::fs::File::create(&multi).map_err(|e| e.to_string())?,
                    cc.inmemory,
                    cc.nthreads as usize,
                )
                .map_err(|e| e.to_string())
            }
            Kind::Bed => {
                let r = BigBedRead::open_file(&big).map_err(|e| e.to_string())?;
                bigtools::utils::cli::bigbedtobed::write_bed(
                    r,
                    std::fs::File::create(&multi).map_err(|e| e.to_string())?,
                    cc.inmemory,
                    cc.nthreads as usize,
                )
                .map_err(|e| e.to_string())
            }
        }
    }));
    sched::uninstall();
    {
        let s = shared.lock().unwrap_or_else(|e| e.into_inner());
        st.steps = s.steps;
        st.nonzero_decisions = s.nonzero;
        st.trace_hash = s.trace_hash;
        for (k, v) in &s.sites {
            *st.counters.entry(format!("site:{}", k)).or_insert(0) += *v;
        }
    }
    for (k, v) in bigtools::verif::take_probes() {
        *st.probes.entry(k.to_string()).or_insert(0) += v;
    }
    *st.counters.entry("converter_runs".into()).or_insert(0) += 1;
    let fired = sim_stats
        .borrow()
        .as_ref()
        .map(|s| s.lock().unwrap_or_else(|e| e.into_inner()).hard_errors)
        .unwrap_or(0);
    if fired > 0 {
        *st.faults.entry("F10_hard_read_error".into()).or_insert(0) += fired;
    }
    let verdict = match res {
        // the injected read error may make the conversion fail - it must not make it succeed with other text
        Err(_) | Ok(Err(_)) if fired > 0 => {
            *st.counters.entry("converter_failed_under_injected_read_error".into()).or_insert(0) += 1;
            Verdict::Pass
        }
        Err(p) => viol("converter-panic", panic_message(p)),
        Ok(Err(e)) => viol("converter-failed", format!("multi-threaded path: {}", e)),
        Ok(Ok(())) => {
            let a = std::fs::read(&single).unwrap_or_default();
            let b = std::fs::read(&multi).unwrap_or_default();
            if a != b {
                let first = a.iter().zip(b.iter()).position(|(x, y)| x != y).unwrap_or(a.len().min(b.len()));
                viol(
                    "converter-text-differs",
                    format!(
                        "-t {} output ({} bytes) differs from the single-threaded output ({} bytes) at offset {}",
                        cc.nthreads,
                        b.len(),
                        a.len(),
                        first
                    ),
                )
            } else {
                Verdict::Pass
            }
        }
    };
    RunReport {
        verdict,
        nontrivial: cc.file.chroms.len() >= 2,
        stats: st,
    }
}

pub fn shrink_conv(cc: &ConvCase) -> Vec<ConvCase> {
    let mut out = vec![];
    if let Some(n) = cc.hard {
        for m in [n / 2, n.saturating_sub(1)] {
            if m != n {
                let mut c = cc.clone();
                c.hard = Some(m);
                out.push(c);
            }
        }
    }
    {
        let mut n = cc.clone();
        n.sched = Sched::Calm;
        if n != *cc {
            out.push(n);
        }
    }
    if let Sched::Explicit(t) = &cc.sched {
        let len = t.len();
        for (a, b) in [(0, len / 2), (len / 2, len), (0, len / 4), (len / 4, len / 2), (len / 2, 3 * len / 4), (3 * len / 4, len)] {
            let t2: Vec<u16> = t.iter().enumerate().map(|(i, x)| if i >= a && i < b { 0 } else { *x }).collect();
            let mut n = cc.clone();
            n.sched = Sched::Explicit(t2);
            if n != *cc {
                out.push(n);
            }
        }
    }
    for f in crate::props::shrink_pipe(&cc.file) {
        if f.sched == Sched::Calm && f.source == Source::SerialIter {
            let mut n = cc.clone();
            n.file = f;
            out.push(n);
        }
    }
    out
}

pub fn explicit_conv(cc: &ConvCase) -> ConvCase {
    if !matches!(cc.sched, Sched::Seeded { .. }) {
        return cc.clone();
    }
    // the trace is recorded by executing the case once with a recording scheduler
    let mut n = cc.clone();
    if let Some(t) = record_conv_trace(cc) {
        n.sched = Sched::Explicit(t);
    }
    n
}

fn record_conv_trace(cc: &ConvCase) -> Option<Vec<u16>> {
    let out = pipesim::run_write(&cc.file, false);
    if out.result != WriteResult::Ok {
        return None;
    }
    let dir = tempfile::tempdir().ok()?;
    let big = dir.path().join("in.big");
    std::fs::write(&big, &out.image).ok()?;
    let multi = dir.path().join("multi.txt");
    let shared = sched::install(&cc.sched);
    install_sim_runtime();
    let _ = std::panic::catch_unwind(std::panic::AssertUnwindSafe(|| match cc.file.kind {
        Kind::Wig => {
            if let (Ok(r), Ok(f)) = (BigWigRead::open_file(&big), std::fs::File::create(&multi)) {
                let _ = bigtools::utils::cli::bigwigtobedgraph::write_bg(r, f, cc.inmemory, cc.nthreads as usize);
            }
        }
        Kind::Bed => {
            if let (Ok(r), Ok(f)) = (BigBedRead::open_file(&big), std::fs::File::create(&multi)) {
                let _ = bigtools::utils::cli::bigbedtobed::write_bed(r, f, cc.inmemory, cc.nthreads as usize);
            }
        }
    }));
    sched::uninstall();
    let t = shared.lock().unwrap_or_else(|e| e.into_inner()).trace.clone();
    Some(t)
}

// ---------------------------------------------------------------------------------------- C15

#[derive(Clone, Debug, PartialEq, Serialize, Deserialize)]
pub struct MergeCase {
    /// input streams: per stream the chromosomes with their values
    pub inputs: Vec<Vec<Chrom>>,
    pub clip: Option<f32>,
    pub adjust: Option<f32>,
    pub threshold: Option<f32>,
    /// "lib" | "fill" | output file name for the tool ("out.bedGraph", "out.bw", "out.bigWig", "out.dat:bigwig", "out.dat:bedgraph")
    pub mode: String,
    /// library mode: make stream `0` yield an error at this item index
    pub error_at: Option<(usize, usize)>,
    /// tool mode: 0 = every input with `-b`; 1 = every input through one `-l` list file; 2 = the first with `-b`,
    /// the others through a list file
    #[serde(default)]
    pub via_list: u8,
    /// tool mode with bigWig output: the tool's bigWig path (MergingValues + ChromGroupReadImpl + BigWigWrite, as
    /// bigwigmerge composes them) over inputs behind SimRead, where the n-th read/seek call of input `.0` after
    /// opening fails once (F10)
    #[serde(default)]
    pub read_fail: Option<(u8, u32)>,
}

fn exact_value(rng: &mut Rng) -> f32 {
    *rng.pick(&[1.0f32, 2.0, 0.5, -1.0, -0.5, 3.0, 0.0, 1.5, -2.0, 4.0])
}

pub fn gen_merge(rng: &mut Rng) -> MergeCase {
    let k = rng.range(1, 5) as usize;
    let names = ["chr1", "chr2", "chrX"];
    let lens = [260_000u32, 1000, 70_000];
    let nchrom = rng.range(1, 3) as usize;
    let mut inputs = vec![];
    for _ in 0..k {
        let mut chroms = vec![];
        for c in 0..nchrom {
            if k > 1 && rng.chance(1, 5) {
                continue; // chromosome missing from this input
            }
            let mut items = vec![];
            let n = match rng.below(4) {
                0 => rng.range(1, 3),
                1 => rng.range(1, 20),
                _ => rng.range(1, 60),
            };
            let mut pos: u64 = match rng.below(3) {
                0 => 0,
                1 => rng.below(50),
                _ => *rng.pick(&[49_990u64, 99_995, 149_999, 1]),
            };
            for _ in 0..n {
                pos += match rng.below(5) {
                    0 => 0,
                    1 => rng.below(5),
                    2 => rng.below(200),
                    3 => *rng.pick(&[49_000u64, 50_000, 10]),
                    _ => rng.below(30),
                };
                if rng.chance(1, 7) {
                    // start exactly on a 50,000-base work-window line
                    pos = (pos + 49_999) / 50_000 * 50_000;
                }
                let mut len = match rng.below(5) {
                    0 => 1,
                    1 => rng.range(1, 10),
                    2 => rng.range(1, 300),
                    3 => *rng.pick(&[50_000u64, 100_001, 7]),
                    _ => rng.range(1, 40),
                };
                if rng.chance(1, 9) {
                    // end exactly on a window line
                    let e = (pos + len + 49_999) / 50_000 * 50_000;
                    if e > pos {
                        len = e - pos;
                    }
                }
                if pos + len > lens[c] as u64 {
                    break;
                }
                items.push(Item::wig(pos as u32, (pos + len) as u32, exact_value(rng)));
                pos += len;
            }
            if !items.is_empty() {
                chroms.push(Chrom {
                    name: names[c].to_string(),
                    len: lens[c],
                    items,
                });
            }
        }
        if chroms.is_empty() {
            chroms.push(Chrom {
                name: names[0].to_string(),
                len: lens[0],
                items: vec![Item::wig(0, 3, 1.0)],
            });
        }
        inputs.push(chroms);
    }
    let mode = match rng.below(10) {
        0..=2 => "lib".to_string(),
        3 => "fill".to_string(),
        4 => "out.bedGraph".to_string(),
        5 => "out.bw".to_string(),
        6 => "out.bigWig".to_string(),
        7 => "out.dat:bigwig".to_string(),
        8 => "out.dat:BedGraph".to_string(),
        _ => "out.bedGraph".to_string(),
    };
    let mut mode = mode;
    if rng.chance(1, 100) {
        // large merge through the tool (-t 1, bigWig output): one chromosome with more merged values than the tool's
        // section channel can hold (100 sections of 1024 items), alternating values so that nothing coalesces
        let n = 104_000 + rng.below(30_000) as u32;
        let start = rng.below(1000) as u32;
        let items: Vec<Item> = (0..n).map(|i| Item::wig(start + i, start + i + 1, if i % 2 == 0 { 1.0 } else { 2.0 })).collect();
        inputs[0] = vec![Chrom {
            name: names[0].to_string(),
            len: lens[0],
            items,
        }];
        mode = if rng.chance(1, 2) { "out.bw".to_string() } else { "out.bigWig".to_string() };
    }
    let error_at = if mode == "lib" && rng.chance(1, 4) {
        let n = inputs[0][0].items.len();
        Some((0usize, rng.below(n as u64 + 1) as usize))
    } else {
        None
    };
    MergeCase {
        inputs,
        clip: if rng.chance(1, 3) { Some(*rng.pick(&[1.0f32, 2.5, 0.0])) } else { None },
        adjust: if rng.chance(1, 3) { Some(*rng.pick(&[0.5f32, -1.0, 2.0])) } else { None },
        threshold: if rng.chance(1, 2) { Some(*rng.pick(&[-10.0f32, 0.5, 1.0, -0.25])) } else { None },
        mode,
        error_at,
        via_list: if rng.chance(1, 4) { 1 + rng.below(2) as u8 } else { 0 },
        // (a third of these without a fault: nth beyond any run; the composed path then has to be exact, under
        // small items-per-slot / channel sizes chosen from the two numbers)
        read_fail: if rng.chance(1, 5) {
            Some((rng.below(8) as u8, if rng.chance(1, 3) { 4_000_000_000 - rng.below(4) as u32 } else { rng.below(40) as u32 }))
        } else {
            None
        },
    }
}

/// run-length per-base sum of several sorted disjoint streams; zero-sum runs dropped
fn sum_runs(streams: &[&[Item]]) -> Vec<(u32, u32, f32)> {
    let mut ev: Vec<(u32, f64)> = vec![];
    for s in streams {
        for it in *s {
            if it.e > it.s {
                ev.push((it.s, it.v() as f64));
                ev.push((it.e, -(it.v() as f64)));
            }
        }
    }
    // coverage count to know where at least one input has data
    let mut cov: Vec<(u32, i32)> = vec![];
    for s in streams {
        for it in *s {
            if it.e > it.s {
                cov.push((it.s, 1));
                cov.push((it.e, -1));
            }
        }
    }
    ev.sort_by(|a, b| a.0.cmp(&b.0));
    cov.sort();
    let mut pts: Vec<u32> = ev.iter().map(|e| e.0).collect();
    pts.dedup();
    let mut out: Vec<(u32, u32, f32)> = vec![];
    let (mut i, mut j) = (0usize, 0usize);
    let mut sum = 0.0f64;
    let mut depth = 0i32;
    for w in 0..pts.len() {
        let p = pts[w];
        while i < ev.len() && ev[i].0 == p {
            sum += ev[i].1;
            i += 1;
        }
        while j < cov.len() && cov[j].0 == p {
            depth += cov[j].1;
            j += 1;
        }
        if w + 1 < pts.len() && depth > 0 {
            let v = sum as f32;
            if v != 0.0 {
                match out.last_mut() {
                    Some(l) if l.1 == p && l.2 == v => l.1 = pts[w + 1],
                    _ => out.push((p, pts[w + 1], v)),
                }
            }
        }
    }
    out
}

fn normalise(runs: &[(u32, u32, f32)]) -> Vec<(u32, u32, f32)> {
    let mut out: Vec<(u32, u32, f32)> = vec![];
    for r in runs {
        if r.1 <= r.0 {
            continue;
        }
        match out.last_mut() {
            Some(l) if l.1 == r.0 && l.2 == r.2 => l.1 = r.1,
            _ => out.push(*r),
        }
    }
    out
}

fn apply_tool_ops(runs: &[(u32, u32, f32)], c: &MergeCase) -> Vec<(u32, u32, f32)> {
    let thr = c.threshold.unwrap_or(0.0);
    let mut out = vec![];
    for (s, e, v) in runs {
        let mut v = *v;
        if let Some(clip) = c.clip {
            v = clip.min(v);
        }
        v += c.adjust.unwrap_or(0.0);
        if v > thr {
            out.push((*s, *e, v));
        }
    }
    normalise(&out)
}

fn check_sorted_disjoint(vals: &[(u32, u32, f32)]) -> Result<(), String> {
    for w in vals.windows(2) {
        if w[1].0 < w[0].1 {
            return Err(format!("output not sorted/disjoint: [{}, {}) then [{}, {})", w[0].0, w[0].1, w[1].0, w[1].1));
        }
    }
    Ok(())
}

pub fn run_merge(c: &MergeCase) -> RunReport {
    let mut st = RunStats::default();
    let res = std::panic::catch_unwind(std::panic::AssertUnwindSafe(|| run_merge_inner(c, &mut st)));
    let verdict = match res {
        Ok(v) => v,
        Err(p) => viol("merge-panic", panic_message(p)),
    };
    st.trace_hash = crate::rng::hash_bytes(&serde_json::to_vec(c).unwrap());
    *st.counters.entry(format!("mode:{}", c.mode)).or_insert(0) += 1;
    *st.counters.entry(format!("inputs_{}", c.inputs.len())).or_insert(0) += 1;
    RunReport {
        verdict,
        nontrivial: c.inputs.iter().map(|i| i.iter().map(|ch| ch.items.len()).sum::<usize>()).sum::<usize>() >= 2,
        stats: st,
    }
}

fn run_merge_inner(c: &MergeCase, st: &mut RunStats) -> Verdict {
    let chrom_names: Vec<String> = {
        let mut v: Vec<String> = c.inputs.iter().flat_map(|i| i.iter().map(|ch| ch.name.clone())).collect();
        v.sort();
        v.dedup();
        v
    };
    if c.mode == "lib" || c.mode == "fill" {
        // library: one chromosome's streams
        let name = &chrom_names[0];
        let streams: Vec<Vec<Item>> = c
            .inputs
            .iter()
            .map(|i| i.iter().find(|ch| ch.name == *name).map(|ch| ch.items.clone()).unwrap_or_default())
            .collect();
        if c.mode == "fill" {
            let s0 = &streams[0];
            let vals: Vec<bigtools::Value> = s0.iter().map(|i| bigtools::Value { start: i.s, end: i.e, value: i.v() }).collect();
            let filled: Result<Vec<bigtools::Value>, std::io::Error> =
                bigtools::utils::fill::fill(vals.clone().into_iter().map(Ok)).collect();
            let filled = match filled {
                Ok(f) => f,
                Err(e) => return viol("fill-error", e.to_string()),
            };
            // gapless from the first start to the last end, keeps every original, adds only zeros
            if let (Some(first), Some(last)) = (vals.first(), vals.last()) {
                let mut pos = filled.first().map(|v| v.start).unwrap_or(0);
                if pos > first.start {
                    return viol("fill-wrong", format!("filled stream starts at {} after the first value {}", pos, first.start));
                }
                let mut oi = 0;
                for v in &filled {
                    if v.start != pos {
                        return viol("fill-wrong", format!("gap or overlap at {} (next starts {})", pos, v.start));
                    }
                    pos = v.end;
                    if oi < vals.len() && *v == vals[oi] {
                        oi += 1;
                    } else if v.value != 0.0 {
                        return viol("fill-wrong", format!("added value [{}, {}) = {} is not zero", v.start, v.end, v.value));
                    }
                }
                if oi != vals.len() {
                    return viol("fill-wrong", format!("original value #{} not kept", oi));
                }
                if pos < last.end {
                    return viol("fill-wrong", "filled stream ends before the last value".into());
                }
                // fill_start_to_end
                let lo = first.start.saturating_sub(7);
                let hi = last.end + 5;
                let f2: Result<Vec<bigtools::Value>, std::io::Error> =
                    bigtools::utils::fill::fill_start_to_end(vals.clone().into_iter().map(Ok), lo, hi).collect();
                match f2 {
                    Ok(f2) => {
                        let mut pos = lo;
                        let mut oi = 0;
                        for v in &f2 {
                            if v.start != pos {
                                return viol("fill-wrong", format!("fill_start_to_end: gap or overlap at {}", pos));
                            }
                            pos = v.end;
                            if oi < vals.len() && *v == vals[oi] {
                                oi += 1;
                            } else if v.value != 0.0 {
                                return viol("fill-wrong", "fill_start_to_end added a non-zero value".into());
                            }
                        }
                        if pos != hi || oi != vals.len() {
                            return viol("fill-wrong", format!("fill_start_to_end ends at {} (expected {}), kept {} of {}", pos, hi, oi, vals.len()));
                        }
                    }
                    Err(e) => return viol("fill-error", e.to_string()),
                }
            }
            return Verdict::Pass;
        }
        // merge_sections_many with an optional injected error
        let iters: Vec<Box<dyn Iterator<Item = Result<bigtools::Value, String>> + Send>> = streams
            .iter()
            .enumerate()
            .map(|(si, s)| {
                let err_at = match c.error_at {
                    Some((es, ei)) if es == si => Some(ei),
                    _ => None,
                };
                let vals: Vec<bigtools::Value> = s.iter().map(|i| bigtools::Value { start: i.s, end: i.e, value: i.v() }).collect();
                let n = vals.len();
                let mut k = 0usize;
                let mut failed = false;
                Box::new(std::iter::from_fn(move || {
                    if failed {
                        return None;
                    }
                    if Some(k) == err_at {
                        failed = true;
                        return Some(Err("injected stream error".to_string()));
                    }
                    if k >= n {
                        return None;
                    }
                    k += 1;
                    Some(Ok(vals[k - 1]))
                })) as Box<dyn Iterator<Item = Result<bigtools::Value, String>> + Send>
            })
            .collect();
        let mut got: Vec<(u32, u32, f32)> = vec![];
        let mut saw_err = false;
        for x in bigtools::utils::merge::merge_sections_many(iters) {
            match x {
                Ok(v) => {
                    if saw_err {
                        return viol("merge-after-error", "a value was emitted after the error".into());
                    }
                    got.push((v.start, v.end, v.value));
                }
                Err(_) => {
                    saw_err = true;
                }
            }
            if got.len() > 1_000_000 {
                return viol("merge-unbounded", "merge emits without end".into());
            }
        }
        if c.error_at.is_some() {
            st.faults.insert("F7_stream_error".into(), 1);
            let applicable = c.error_at.map(|(s, i)| i <= streams[s].len()).unwrap_or(false);
            if applicable && !saw_err {
                return viol("merge-error-swallowed", "an input stream yielded Err but the merged stream did not".into());
            }
            if let Err(e) = check_sorted_disjoint(&got) {
                return viol("merge-wrong", e);
            }
            return Verdict::Pass;
        }
        if let Err(e) = check_sorted_disjoint(&got) {
            return viol("merge-wrong", e);
        }
        if got.iter().any(|g| g.2 == 0.0) {
            return viol("merge-wrong", "merged stream holds an explicit zero".into());
        }
        let refs: Vec<&[Item]> = streams.iter().map(|s| s.as_slice()).collect();
        let want = sum_runs(&refs);
        let got_n = normalise(&got);
        if got_n != want {
            let k = got_n.iter().zip(&want).position(|(a, b)| a != b).unwrap_or(got_n.len().min(want.len()));
            return viol(
                "merge-wrong",
                format!("per-base signal differs at run {}: got {:?}, expected {:?}", k, got_n.get(k), want.get(k)),
            );
        }
        return Verdict::Pass;
    }
    // tool
    let dir = match tempfile::tempdir() {
        Ok(d) => d,
        Err(e) => return Verdict::Skip(format!("HARNESS: tempdir: {}", e)),
    };
    let mut in_paths = vec![];
    let mut images: Vec<Vec<u8>> = vec![];
    for (k, input) in c.inputs.iter().enumerate() {
        let pc = PipeCase {
            kind: Kind::Wig,
            chroms: input.clone(),
            extra_sizes: vec![],
            opts: Opts {
                inmemory: true,
                sort_all: false,
                ..Opts::default()
            },
            source: Source::SerialIter,
            multipass: false,
            autosql: None,
            sched: Sched::Calm,
            sink: SinkFaults::default(),
            read: ReadFaults::default(),
            bad: None,
            mt_threads: 0,
        };
        let out = pipesim::run_write(&pc, false);
        if out.result != WriteResult::Ok {
            return Verdict::Skip(format!("input {} could not be written: {:?}", k, out.result));
        }
        let p = dir.path().join(format!("in{}.bw", k));
        if std::fs::write(&p, &out.image).is_err() {
            return Verdict::Skip("HARNESS: scratch write".into());
        }
        in_paths.push(p);
        images.push(out.image);
    }
    let (fname, otype) = match c.mode.split_once(':') {
        Some((f, t)) => (f.to_string(), Some(t.to_string())),
        None => (c.mode.clone(), None),
    };
    let outp: PathBuf = dir.path().join(&fname);
    let mut argv = vec!["bigwigmerge".to_string(), p2s(&outp)];
    let direct = match c.via_list {
        0 => in_paths.len(),
        1 => 0,
        _ => 1,
    };
    for p in &in_paths[..direct] {
        argv.push("-b".into());
        argv.push(p2s(p));
    }
    if direct < in_paths.len() {
        let list = dir.path().join("inputs.txt");
        let text: String = in_paths[direct..].iter().map(|p| format!("{}\n", p2s(p))).collect();
        if std::fs::write(&list, text).is_err() {
            return Verdict::Skip("HARNESS: scratch write".into());
        }
        argv.push("-l".into());
        argv.push(p2s(&list));
    }
    if let Some(t) = c.threshold {
        argv.push(format!("--threshold={}", t));
    }
    if let Some(a) = c.adjust {
        argv.push(format!("--adjust={}", a));
    }
    if let Some(cl) = c.clip {
        argv.push(format!("--clip={}", cl));
    }
    if let Some(t) = &otype {
        argv.push("--output-type".into());
        argv.push(t.clone());
    }
    argv.push("-t".into());
    argv.push("1".into());
    let args = match parse_args::<bigtools::utils::cli::bigwigmerge::BigWigMergeArgs>(&argv) {
        Ok(a) => a,
        Err(e) => return viol("flags-rejected", e),
    };
    // expectation per chromosome
    let mut want: BTreeMap<String, Vec<(u32, u32, f32)>> = BTreeMap::new();
    for name in &chrom_names {
        let streams: Vec<&[Item]> = c
            .inputs
            .iter()
            .filter_map(|i| i.iter().find(|ch| ch.name == *name).map(|ch| ch.items.as_slice()))
            .collect();
        let runs = apply_tool_ops(&sum_runs(&streams), c);
        if !runs.is_empty() {
            want.insert(name.clone(), runs);
        }
    }
    let is_bedgraph = otype.as_deref().map(|t| t.eq_ignore_ascii_case("bedgraph")).unwrap_or(fname.ends_with(".bedGraph"));
    let r = match c.read_fail {
        Some((which, nth)) if !is_bedgraph => {
            *st.counters.entry("tool_pipeline_composed_over_simread".into()).or_insert(0) += 1;
            let (r, fired) = merge_with_failing_input(c, &images, &outp, which as usize % images.len(), nth);
            if fired > 0 {
                *st.faults.entry("F10_hard_read_error".into()).or_insert(0) += fired;
                if r.is_err() {
                    // the injected read error may make the merge fail; it must not make it succeed with signal missing
                    *st.counters.entry("merge_failed_under_injected_read_error".into()).or_insert(0) += 1;
                    return Verdict::Pass;
                }
            }
            r
        }
        _ => bigtools::utils::cli::bigwigmerge::bigwigmerge(args).map_err(|e| e.to_string()),
    };
    if let Err(e) = r {
        if want.is_empty() {
            // nothing survives the threshold: refusing to write an empty file is acceptable
            return Verdict::Pass;
        }
        return viol("merge-tool-failed", e);
    }
    let mut got: BTreeMap<String, Vec<(u32, u32, f32)>> = BTreeMap::new();
    if !outp.exists() {
        return viol(
            "merge-output-name-not-accepted",
            format!("no output produced for the documented output name {:?} (type {:?})", fname, otype),
        );
    }
    if is_bedgraph {
        let text = std::fs::read_to_string(&outp).unwrap_or_default();
        match parse_back(Kind::Wig, &text) {
            Ok(v) => {
                for (ch, it) in v {
                    got.entry(ch).or_default().push((it.s, it.e, it.v()));
                }
            }
            Err(e) => return viol("merge-wrong", format!("bedGraph output does not parse: {}", e)),
        }
    } else {
        let mut bw = match BigWigRead::open_file(&outp) {
            Ok(b) => b,
            Err(e) => {
                if want.is_empty() {
                    return Verdict::Pass;
                }
                return viol("merge-wrong", format!("bigWig output not readable: {}", e));
            }
        };
        for ci in bw.chroms().to_vec() {
            let vals: Result<Vec<bigtools::Value>, _> = match bw.get_interval(&ci.name, 0, ci.length) {
                Ok(i) => i.collect(),
                Err(e) => Err(e),
            };
            match vals {
                Ok(v) => {
                    if !v.is_empty() {
                        got.insert(ci.name.clone(), v.iter().map(|x| (x.start, x.end, x.value)).collect());
                    }
                }
                Err(e) => return viol("merge-wrong", format!("reading merged bigWig: {}", e)),
            }
        }
    }
    for v in got.values() {
        if let Err(e) = check_sorted_disjoint(v) {
            return viol("merge-wrong", e);
        }
    }
    let got_n: BTreeMap<String, Vec<(u32, u32, f32)>> = got.iter().map(|(k, v)| (k.clone(), normalise(v))).collect();
    if got_n != want {
        for name in &chrom_names {
            let g = got_n.get(name).cloned().unwrap_or_default();
            let w = want.get(name).cloned().unwrap_or_default();
            if g != w {
                let k = g.iter().zip(&w).position(|(a, b)| a != b).unwrap_or(g.len().min(w.len()));
                return viol(
                    if w.first().map(|x| x.0 == 0).unwrap_or(false) && g.first().map(|x| x.0 == 1).unwrap_or(false) && k == 0 {
                        "merge-base0-dropped"
                    } else {
                        "merge-wrong"
                    },
                    format!("{}: run {}: got {:?}, expected {:?} ({} vs {} runs)", name, k, g.get(k), w.get(k), g.len(), w.len()),
                );
            }
        }
        return viol("merge-wrong", "chromosome sets differ".into());
    }
    Verdict::Pass
}

/// The bigWig output path of bigwigmerge, composed from its public pieces exactly as the tool composes them, with
/// the inputs behind SimRead. Returns the write result (a panic counts as an error) and how often the fault fired.
fn merge_with_failing_input(c: &MergeCase, images: &[Vec<u8>], outp: &Path, which: usize, nth: u32) -> (Result<(), String>, u64) {
    use bigtools::utils::cli::bigwigmerge::{ChromGroupReadImpl, MergingValues, MergingValuesError};
    use bigtools::utils::reopen::Reopen;
    let mut readers = vec![];
    let mut stats = vec![];
    for img in images {
        let rf = ReadFaults {
            hard_kind: (nth % 4) as u8,
            ..ReadFaults::default()
        };
        let rd = crate::sink::SimRead::new(Arc::new(img.clone()), &rf);
        stats.push(rd.stats.clone());
        match BigWigRead::open(rd) {
            Ok(r) => readers.push(r),
            Err(e) => return (Err(format!("open: {}", e)), 0),
        }
    }
    let mut chrom_map = std::collections::HashMap::new();
    let mut sizes: BTreeMap<String, u32> = BTreeMap::new();
    for r in &readers {
        for ci in r.chroms() {
            chrom_map.insert(ci.name.clone(), ci.length);
            sizes.insert(ci.name.clone(), ci.length);
        }
    }
    stats[which].lock().unwrap_or_else(|e| e.into_inner()).arm = Some(nth as u64);
    let (threshold, adjust, clip) = (c.threshold.unwrap_or(0.0), c.adjust, c.clip);
    let iter = sizes.into_iter().map(move |(chrom, size)| {
        let mut iters: Vec<Box<dyn Iterator<Item = Result<bigtools::Value, MergingValuesError>> + Send>> = vec![];
        for r in &readers {
            if !r.chroms().iter().any(|ci| ci.name == chrom) {
                continue;
            }
            let r2 = r.reopen().map_err(MergingValuesError::IoError)?;
            let it = r2.get_interval_move(&chrom, 0, size).map_err(MergingValuesError::BBIReadError)?;
            iters.push(Box::new(it.map(|x| x.map_err(MergingValuesError::BBIReadError))));
        }
        Ok((chrom, size, MergingValues::new(iters, threshold, adjust, clip)))
    });
    let source = ChromGroupReadImpl { iter: Box::new(iter) };
    let mut outb = match bigtools::BigWigWrite::create_file(outp, chrom_map) {
        Ok(o) => o,
        Err(e) => return (Err(format!("HARNESS: create: {}", e)), 0),
    };
    // the tool always writes with the default options; composed here, the hand-off sizes can be small, so that
    // a few dozen values already fill the section channel
    if let Some((w, n)) = c.read_fail {
        outb.options.items_per_slot = [1024u32, 1, 2, 8][(w as usize / 2) % 4];
        outb.options.channel_size = [100usize, 0, 1, 2][n as usize % 4];
    }
    let res = std::panic::catch_unwind(std::panic::AssertUnwindSafe(|| {
        let runtime = sched::current_thread_runtime();
        outb.write(source, runtime).map_err(|e| e.to_string())
    }));
    let fired = stats[which].lock().unwrap_or_else(|e| e.into_inner()).hard_errors;
    match res {
        Ok(r) => (r, fired),
        Err(p) => (Err(format!("panicked: {}", panic_message(p))), fired),
    }
}

pub fn shrink_merge(c: &MergeCase) -> Vec<MergeCase> {
    let mut out = vec![];
    let mut push = |f: &dyn Fn(&mut MergeCase)| {
        let mut n = c.clone();
        f(&mut n);
        if n != *c && !n.inputs.is_empty() && n.inputs.iter().all(|i| !i.is_empty() && i.iter().all(|ch| !ch.items.is_empty())) {
            out.push(n);
        }
    };
    push(&|n| n.clip = None);
    push(&|n| n.adjust = None);
    push(&|n| n.threshold = None);
    push(&|n| n.via_list = 0);
    push(&|n| n.read_fail = None);
    for k in 0..c.inputs.len() {
        if c.inputs.len() > 1 {
            push(&move |n| {
                n.inputs.remove(k);
                n.error_at = None;
            });
        }
    }
    for k in 0..c.inputs.len() {
        for ci in 0..c.inputs[k].len() {
            if c.inputs[k].len() > 1 {
                push(&move |n| {
                    n.inputs[k].remove(ci);
                });
            }
            let ni = c.inputs[k][ci].items.len();
            if ni > 1 {
                push(&move |n| n.inputs[k][ci].items.truncate(ni / 2));
                push(&move |n| {
                    n.inputs[k][ci].items.drain(0..ni / 2);
                });
                if ni <= 8 {
                    for j in 0..ni {
                        push(&move |n| {
                            n.inputs[k][ci].items.remove(j);
                        });
                    }
                }
            }
        }
    }
    out
}

// ---------------------------------------------------------------------------------------- C17

#[derive(Clone, Debug, PartialEq, Serialize, Deserialize)]
pub struct AvgCase {
    pub file: PipeCase,
    /// regions: (chromosome index, start, end, name column)
    pub regions: Vec<(usize, u32, u32, String)>,
    /// "default" | "interval" | "none" | column number as text
    pub namecol: String,
    pub min_max: bool,
    pub nthreads: u8,
    /// "tool" | "lib" | "values"
    pub mode: String,
    pub read: ReadFaults,
}

pub fn gen_avg(rng: &mut Rng) -> AvgCase {
    let mut p = Profile::default();
    p.kind = Some(Kind::Wig);
    p.zero_len_pm = 0;
    p.max_items = 120;
    p.scaffolds = false;
    p.huge = false;
    p.io_chaos = false;
    p.sched_chaos = false;
    p.all_sources = false;
    let mut file = gen::gen_pipe_case(rng, &p);
    file.sched = Sched::Calm;
    file.sink = SinkFaults::default();
    file.read = ReadFaults::default();
    let nreg = match rng.below(4) {
        0 => rng.range(1, 3),
        1 => rng.range(1, 12),
        _ => rng.range(5, 80),
    };
    let mut regions = vec![];
    for k in 0..nreg {
        let c = rng.below(file.chroms.len() as u64) as usize;
        let ch = &file.chroms[c];
        let (s, e) = if !ch.items.is_empty() && rng.chance(3, 4) {
            let it = rng.pick(&ch.items);
            let s = (it.s as i64 + rng.range(0, 40) as i64 - 20).max(0) as u32;
            let e = (it.e as i64 + rng.range(0, 60) as i64 - 20).max(s as i64 + 1) as u32;
            (s.min(ch.len.saturating_sub(1)), e.min(ch.len))
        } else {
            let s = rng.below(ch.len as u64) as u32;
            let w = rng.below(5000);
            let e = rng.range(s as u64 + 1, (s as u64 + 1 + w).min(ch.len as u64)) as u32;
            (s, e)
        };
        let (s, e) = if e > s { (s, e) } else { (s.saturating_sub(1), s.max(1)) };
        regions.push((c, s, e.min(200_000_000.max(s + 1)), format!("r{}", k)));
    }
    // keep values-over-bed arrays small
    let mut mode = rng.pick(&["tool", "tool", "lib", "values"]).to_string();
    let mut heavy_threads = None;
    if rng.chance(1, 80) {
        // heavy uncontrolled class: many blocks, thousands of regions, many real worker threads - the only way a
        // race between the reopened readers of the thread pool can show (oracle: equality with -t 1)
        mode = "tool".to_string();
        file.opts.items_per_slot = 2;
        file.opts.block_size = 4;
        let c = 0usize;
        let mut items = vec![];
        let mut pos = 0u32;
        for k in 0..6000u32 {
            pos += 1 + rng.below(3) as u32;
            let len = 1 + rng.below(5) as u32;
            items.push(Item::wig(pos, pos + len, (k % 50) as f32 + 0.5));
            pos += len;
        }
        file.chroms[c].len = pos + 100;
        file.chroms[c].items = items;
        regions.clear();
        for k in 0..4000 {
            let s = rng.below(pos as u64 - 50) as u32;
            let e = s + 1 + rng.below(40) as u32;
            regions.push((c, s, e, format!("h{}", k)));
        }
        heavy_threads = Some(*rng.pick(&[4u8, 8, 16]));
    }
    if mode == "values" {
        for r in &mut regions {
            r.2 = r.2.min(r.1 + 3000);
        }
    }
    let mut ac = AvgCase {
        file,
        regions,
        namecol: rng.pick(&["default", "interval", "none", "4", "1", "2", "3"]).to_string(),
        min_max: rng.chance(1, 2),
        nthreads: heavy_threads.unwrap_or(*rng.pick(&[1u8, 1, 2, 3, 4, 8, 16])),
        mode,
        read: if rng.chance(1, 2) {
            ReadFaults {
                short_pm: 300,
                eintr_pm: 100,
                seed: rng.next_u64(),
                hard: None,
                hard_kind: 0,
            }
        } else {
            ReadFaults::default()
        },
    };
    if ac.mode == "lib" && rng.chance(1, 3) {
        ac.read.hard = Some((0, rng.below(40) as u32));
        ac.read.hard_kind = rng.below(4) as u8;
    }
    ac
}

struct AvgWant {
    size: u32,
    bases: u32,
    sum: f64,
    mean0: f64,
    mean: f64,
    min: f64,
    max: f64,
}

fn avg_want(items: &[Item], s: u32, e: u32) -> AvgWant {
    let mut bases = 0u32;
    let mut sum = 0.0f64;
    let mut min = f64::INFINITY;
    let mut max = f64::NEG_INFINITY;
    for it in expect_interval(items, s, e) {
        let n = it.e - it.s;
        bases += n;
        sum += n as f64 * it.v() as f64;
        min = min.min(it.v() as f64);
        max = max.max(it.v() as f64);
    }
    let size = e - s;
    AvgWant {
        size,
        bases,
        sum,
        mean0: sum / size as f64,
        mean: if bases == 0 { f64::NAN } else { sum / bases as f64 },
        min: if bases == 0 { f64::NAN } else { min },
        max: if bases == 0 { f64::NAN } else { max },
    }
}

fn close3(got: f64, want: f64) -> bool {
    if want.is_nan() {
        return got.is_nan();
    }
    if got == want {
        return true;
    }
    if !want.is_finite() || !got.is_finite() {
        return false;
    }
    // the tools print with 3 decimals
    (got - want).abs() <= 0.0011 + want.abs() * 1e-6
}

fn name_want(mode: &str, chrom: &str, s: u32, e: u32, name: &str) -> Option<String> {
    match mode {
        "interval" => Some(format!("{}:{}-{}", chrom, s, e)),
        "none" => Some(format!("{}\t{}\t{}\t{}", chrom, s, e, name)),
        "default" | "4" => Some(name.to_string()),
        "1" => Some(chrom.to_string()),
        "2" => Some(s.to_string()),
        "3" => Some(e.to_string()),
        _ => None,
    }
}

pub fn run_avg(c: &AvgCase) -> RunReport {
    let mut st = RunStats::default();
    let res = std::panic::catch_unwind(std::panic::AssertUnwindSafe(|| run_avg_inner(c, &mut st)));
    let verdict = match res {
        Ok(v) => v,
        Err(p) => viol("avg-panic", panic_message(p)),
    };
    st.trace_hash = crate::rng::hash_bytes(&serde_json::to_vec(&(&c.regions, &c.namecol, c.nthreads)).unwrap());
    *st.counters.entry(format!("mode:{}", c.mode)).or_insert(0) += 1;
    if c.mode == "tool" {
        *st.counters.entry(format!("tool_threads_{}", c.nthreads)).or_insert(0) += 1;
        if c.nthreads > 1 {
            *st.counters.entry("uncontrolled_runs(std::thread pool)".into()).or_insert(0) += 1;
        }
    }
    RunReport {
        verdict,
        nontrivial: c.regions.len() >= 2,
        stats: st,
    }
}

fn run_avg_inner(c: &AvgCase, st: &mut RunStats) -> Verdict {
    let out = pipesim::run_write(&c.file, false);
    if out.result != WriteResult::Ok {
        return Verdict::Skip(format!("file could not be produced: {:?}", out.result));
    }
    let bed_text: String = c
        .regions
        .iter()
        .map(|(ci, s, e, n)| format!("{}\t{}\t{}\t{}\n", c.file.chroms[*ci].name, s, e, n))
        .collect();
    if c.mode == "lib" {
        // library functions on SimRead with F3/F4 through the cached reader
        let rd = crate::sink::SimRead::new(Arc::new(out.image.clone()), &c.read);
        let stats = rd.stats.clone();
        let bw = match BigWigRead::open(rd) {
            Ok(b) => b.cached(),
            Err(e) => return viol("avg-wrong", format!("open: {}", e)),
        };
        if let Some((_, n)) = c.read.hard {
            // F10: the n-th read/seek call from here on fails once; a row may be an error, never a wrong number
            stats.lock().unwrap_or_else(|e| e.into_inner()).arm = Some(n as u64);
        }
        let name = match c.namecol.as_str() {
            "interval" => bigtools::utils::misc::Name::Interval,
            "none" => bigtools::utils::misc::Name::None,
            "default" => bigtools::utils::misc::Name::Column(3),
            n => bigtools::utils::misc::Name::Column(n.parse::<usize>().unwrap_or(4) - 1),
        };
        let rows: Vec<_> = bigtools::utils::misc::bigwig_average_over_bed(std::io::Cursor::new(bed_text.clone().into_bytes()), bw, name).collect();
        {
            let s = stats.lock().unwrap_or_else(|e| e.into_inner());
            if s.short_reads > 0 {
                st.faults.insert("F3_short_read".into(), s.short_reads);
            }
            if s.eintr_reads > 0 {
                st.faults.insert("F4_eintr_read".into(), s.eintr_reads);
            }
            if s.hard_errors > 0 {
                st.faults.insert("F10_hard_read_error".into(), s.hard_errors);
            }
        }
        let hard_fired = stats.lock().unwrap_or_else(|e| e.into_inner()).hard_errors > 0;
        let mut error_rows = 0;
        if rows.len() != c.regions.len() && !(hard_fired && matches!(rows.last(), Some(Err(_)))) {
            return viol("avg-wrong", format!("{} rows for {} regions", rows.len(), c.regions.len()));
        }
        for (k, (row, (ci, s, e, n))) in rows.iter().zip(&c.regions).enumerate() {
            let ch = &c.file.chroms[*ci];
            let (gname, g) = match row {
                Ok(x) => x,
                Err(_) if hard_fired && error_rows == 0 => {
                    error_rows += 1;
                    *st.counters.entry("rows_failed_under_injected_read_error".into()).or_insert(0) += 1;
                    continue;
                }
                Err(e) => return viol("avg-wrong", format!("row {}: {}", k, e)),
            };
            let w = avg_want(&ch.items, *s, *e);
            if Some(gname.clone()) != name_want(&c.namecol, &ch.name, *s, *e, n) {
                return viol("avg-wrong", format!("row {}: name {:?}", k, gname));
            }
            let same = |a: f64, b: f64| (a.is_nan() && b.is_nan()) || a == b || (a - b).abs() <= 1e-9 * b.abs().max(1.0);
            if g.size != w.size || g.bases != w.bases || !same(g.sum, w.sum) || !same(g.mean0, w.mean0) || !same(g.mean, w.mean) || !same(g.min, w.min) || !same(g.max, w.max) {
                return viol(
                    "avg-wrong",
                    format!(
                        "row {} {}:[{},{}): got size {} bases {} sum {} mean0 {} mean {} min {} max {}; expected {} {} {} {} {} {} {}",
                        k, ch.name, s, e, g.size, g.bases, g.sum, g.mean0, g.mean, g.min, g.max, w.size, w.bases, w.sum, w.mean0, w.mean, w.min, w.max
                    ),
                );
            }
        }
        return Verdict::Pass;
    }
    let dir = match tempfile::tempdir() {
        Ok(d) => d,
        Err(e) => return Verdict::Skip(format!("HARNESS: tempdir: {}", e)),
    };
    let big = dir.path().join("in.bw");
    let bed = dir.path().join("regions.bed");
    let outp = dir.path().join("out.txt");
    if std::fs::write(&big, &out.image).is_err() || std::fs::write(&bed, &bed_text).is_err() {
        return Verdict::Skip("HARNESS: scratch write".into());
    }
    if c.mode == "values" {
        let argv = vec!["bigwigvaluesoverbed".to_string(), p2s(&big), p2s(&bed), p2s(&outp)];
        let args = match parse_args::<bigtools::utils::cli::bigwigvaluesoverbed::BigWigValuesOverBedArgs>(&argv) {
            Ok(a) => a,
            Err(e) => return viol("flags-rejected", e),
        };
        if let Err(e) = bigtools::utils::cli::bigwigvaluesoverbed::bigwigvaluesoverbed(args) {
            return viol("values-tool-failed", e.to_string());
        }
        let text = std::fs::read_to_string(&outp).unwrap_or_default();
        let lines: Vec<&str> = text.lines().collect();
        if lines.len() != c.regions.len() {
            return viol("values-wrong", format!("{} rows for {} regions", lines.len(), c.regions.len()));
        }
        for (k, (line, (ci, s, e, _))) in lines.iter().zip(&c.regions).enumerate() {
            let ch = &c.file.chroms[*ci];
            let want: Vec<f32> = expect_values(&ch.items, *s, *e).into_iter().map(|v| if v.is_nan() { 0.0 } else { v }).collect();
            let got: Vec<f32> = line.split('\t').filter(|x| !x.is_empty()).map(|x| x.parse::<f32>().unwrap_or(f32::NAN)).collect();
            if got.len() != want.len() || got.iter().zip(&want).any(|(a, b)| a != b && a.to_bits() != b.to_bits()) {
                return viol("values-wrong", format!("row {} {}:[{},{}): per-base values differ", k, ch.name, s, e));
            }
        }
        return Verdict::Pass;
    }
    // every worker thread of the tool gets a reopened reader: the handles must be independent cursors
    if let Err(m) = reopen_history_check(&big, crate::rng::hash_bytes(bed_text.as_bytes()) ^ c.nthreads as u64) {
        return viol("reopened-handle-not-independent", m);
    }
    // the tool, -t 1 and -t N
    let run_tool = |threads: u8, outp: &Path| -> Result<String, Verdict> {
        let mut argv = vec![
            "bigwigaverageoverbed".to_string(),
            p2s(&big),
            p2s(&bed),
            p2s(outp),
            "-t".into(),
            threads.to_string(),
        ];
        if c.min_max {
            argv.push("--min-max".into());
        }
        if c.namecol != "default" {
            argv.push("-n".into());
            argv.push(c.namecol.clone());
        }
        let args = parse_args::<bigtools::utils::cli::bigwigaverageoverbed::BigWigAverageOverBedArgs>(&argv)
            .map_err(|e| viol("flags-rejected", e))?;
        bigtools::utils::cli::bigwigaverageoverbed::bigwigaverageoverbed(args).map_err(|e| viol("avg-tool-failed", e.to_string()))?;
        std::fs::read_to_string(outp).map_err(|e| viol("avg-tool-failed", e.to_string()))
    };
    let single = match run_tool(1, &outp) {
        Ok(t) => t,
        Err(v) => return v,
    };
    let lines: Vec<&str> = single.lines().collect();
    if lines.len() != c.regions.len() {
        return viol("avg-wrong", format!("{} rows for {} regions", lines.len(), c.regions.len()));
    }
    for (k, (line, (ci, s, e, n))) in lines.iter().zip(&c.regions).enumerate() {
        let ch = &c.file.chroms[*ci];
        let w = avg_want(&ch.items, *s, *e);
        let want_name = name_want(&c.namecol, &ch.name, *s, *e, n).unwrap_or_default();
        let ncols = if c.min_max { 7 } else { 5 };
        let cols: Vec<&str> = line.split('\t').collect();
        if cols.len() < ncols {
            return viol("avg-wrong", format!("row {}: too few columns: {:?}", k, line));
        }
        let (name_cols, stat_cols) = cols.split_at(cols.len() - ncols);
        if name_cols.join("\t") != want_name {
            return viol("avg-wrong", format!("row {}: name {:?}, expected {:?}", k, name_cols.join("\t"), want_name));
        }
        let num = |x: &str| x.parse::<f64>().unwrap_or(f64::NAN);
        let mut ok = stat_cols[0] == w.size.to_string() && stat_cols[1] == w.bases.to_string();
        ok = ok && close3(num(stat_cols[2]), w.sum) && close3(num(stat_cols[3]), w.mean0) && close3(num(stat_cols[4]), w.mean);
        if c.min_max {
            ok = ok && close3(num(stat_cols[5]), w.min) && close3(num(stat_cols[6]), w.max);
        }
        if !ok {
            return viol(
                "avg-wrong",
                format!(
                    "row {} {}:[{},{}): got {:?}; expected size {} bases {} sum {} mean0 {} mean {} min {} max {}",
                    k, ch.name, s, e, stat_cols, w.size, w.bases, w.sum, w.mean0, w.mean, w.min, w.max
                ),
            );
        }
    }
    if c.nthreads > 1 {
        let outp2 = dir.path().join("out_mt.txt");
        let multi = match run_tool(c.nthreads, &outp2) {
            Ok(t) => t,
            Err(v) => return v,
        };
        if multi != single {
            let _ = std::fs::create_dir_all(crate::driver::root().join("replays"));
            return viol(
                "avg-threads-differ-uncontrolled",
                format!("-t {} output differs from -t 1 output ({} vs {} bytes)", c.nthreads, multi.len(), single.len()),
            );
        }
    }
    Verdict::Pass
}

pub fn shrink_avg(c: &AvgCase) -> Vec<AvgCase> {
    let mut out = vec![];
    let n = c.regions.len();
    if n > 1 {
        for (a, b) in [(0, n / 2), (n / 2, n)] {
            let mut x = c.clone();
            x.regions = c.regions[a..b].to_vec();
            out.push(x);
        }
        if n <= 10 {
            for k in 0..n {
                let mut x = c.clone();
                x.regions.remove(k);
                out.push(x);
            }
        }
    }
    let mut push = |f: &dyn Fn(&mut AvgCase)| {
        let mut x = c.clone();
        f(&mut x);
        if x != *c {
            out.push(x);
        }
    };
    push(&|x| x.nthreads = 1);
    push(&|x| x.min_max = false);
    push(&|x| x.namecol = "default".into());
    push(&|x| x.read = ReadFaults::default());
    out
}

//! Swarm-style workload generator for the write pipeline.

use crate::model::*;
use crate::rng::Rng;

/// Bias knobs; each check sets the ones its property cares about.
#[derive(Clone, Debug)]
pub struct Profile {
    pub kind: Option<Kind>,
    /// permille of runs that contain zero-length items
    pub zero_len_pm: u64,
    /// permille of bigBed runs that may contain the entry [0,0)
    pub bed_zero_zero_pm: u64,
    pub max_items: u64,
    pub max_chroms: u64,
    /// force small manual zoom lists (C07/C08)
    pub zoom_focus: bool,
    /// chaos on the sink / reader (F1-F4)
    pub io_chaos: bool,
    /// vary schedule
    pub sched_chaos: bool,
    /// allow sources other than SerialIter
    pub all_sources: bool,
    /// allow multipass
    pub multipass: bool,
    /// bias towards long-first-entry blocks (C04)
    pub long_first: bool,
    /// allow huge coordinates
    pub huge: bool,
    /// bigBed entries may reach past the chromosome end (accepted by the writer)
    pub bed_past_end: bool,
    /// a share of the cases has hundreds of small chromosomes (scaffolds)
    pub scaffolds: bool,
}

impl Default for Profile {
    fn default() -> Self {
        Profile {
            kind: None,
            zero_len_pm: 60,
            bed_zero_zero_pm: 10,
            max_items: 400,
            max_chroms: 6,
            zoom_focus: false,
            io_chaos: true,
            sched_chaos: true,
            all_sources: true,
            multipass: true,
            long_first: false,
            huge: true,
            bed_past_end: false,
            scaffolds: true,
        }
    }
}

const NAMES: &[&str] = &[
    "chr1", "chr10", "chr2", "chr2_random", "chrX", "chrY", "chrM", "a", "ab", "Z", "chr1_gl000191_random",
    "scaffold_12", "1", "10", "2", "chrUn_KI270302v1", "é", "chr11",
];

pub fn f32_pool(rng: &mut Rng) -> f32 {
    match rng.below(14) {
        0 => 0.0,
        1 => -0.0,
        2 => 1.0,
        3 => -1.0,
        4 => 0.5,
        5 => 3.25,
        6 => 1e-40,
        7 => f32::MAX,
        8 => -f32::MAX,
        9 => f32::MIN_POSITIVE,
        10 | 11 => (rng.below(2000) as f32 - 1000.0) / 8.0,
        12 => rng.below(100) as f32,
        _ => loop {
            let v = f32::from_bits(rng.next_u32());
            if v.is_finite() {
                break v;
            }
        },
    }
}

const WORDS: &[&str] = &[
    "a", "gene1", "0", "255,0,0", "+", "-", ".", "1000", "name with space", "é", "名前", "😀", "x;y|z", "12.5",
    "", "NM_000014.6", "a,b,c,", "\"q\"", "tab-free", "Z",
];

pub fn gen_rest(rng: &mut Rng) -> String {
    let ncols = match rng.below(10) {
        0..=2 => 0,
        3..=5 => 1,
        6..=7 => rng.range(2, 5),
        8 => rng.range(6, 12),
        _ => rng.range(13, 20),
    };
    let mut cols: Vec<String> = vec![];
    for _ in 0..ncols {
        cols.push(rng.pick(WORDS).to_string());
    }
    let mut s = cols.join("\t");
    // never end with whitespace (outside the property's quantifier): strip and, if needed, close with a word
    while s.ends_with(|c: char| c.is_whitespace()) {
        s.pop();
    }
    if ncols > 0 && s.is_empty() {
        s.push('x');
    }
    s
}

fn gap_from(rng: &mut Rng, res: u32) -> u32 {
    let res = res.max(2);
    match rng.below(12) {
        0..=2 => 0,
        3 => 1,
        4 => rng.range(1, 5) as u32,
        5 => res - 1,
        6 => res,
        7 => res + 1,
        8 => res.saturating_mul(rng.range(2, 6) as u32),
        9 => rng.range(1, res as u64 * 2) as u32,
        10 => res.saturating_mul(40).saturating_add(rng.below(7) as u32),
        _ => rng.range(1, 3000) as u32,
    }
}

fn len_from(rng: &mut Rng, res: u32) -> u32 {
    let res = res.max(2);
    match rng.below(10) {
        0..=3 => 1,
        4 => rng.range(1, 5) as u32,
        5 => res,
        6 => res - 1,
        7 => res.saturating_mul(rng.range(1, 4) as u32).saturating_add(rng.below(3) as u32),
        8 => rng.range(1, res as u64 * 3) as u32,
        _ => rng.range(1, 500) as u32,
    }
}

fn gen_wig_items(rng: &mut Rng, n: u64, res: u32, zero_len: bool, base: u32) -> Vec<Item> {
    let mut items = Vec::with_capacity(n as usize);
    let class = rng.below(6);
    let mut pos: u64 = match rng.below(4) {
        0 | 1 => 0,
        2 => rng.range(1, 10),
        _ => rng.range(1, 100_000),
    } + base as u64;
    for i in 0..n {
        let gap = match class {
            0 => 0,                                  // dense / adjacent
            1 => gap_from(rng, res),                  // mixed
            2 => res.saturating_mul(3) + rng.below(5) as u32, // always > res
            3 => rng.below(res.max(2) as u64) as u32, // always < res
            _ => gap_from(rng, res),
        };
        if i > 0 || rng.chance(1, 2) {
            pos += gap as u64;
        }
        let mut len = match class {
            0 => rng.range(1, 3) as u32,
            _ => len_from(rng, res),
        };
        if zero_len && rng.chance(1, 6) {
            len = 0;
        }
        if pos + len as u64 > 4_000_000_000 {
            break;
        }
        items.push(Item::wig(pos as u32, (pos + len as u64) as u32, f32_pool(rng)));
        pos += len as u64;
    }
    items
}

fn gen_bed_items(rng: &mut Rng, n: u64, res: u32, zero_len: bool, long_first: bool, zero_zero: bool) -> Vec<Item> {
    let mut items: Vec<Item> = Vec::with_capacity(n as usize);
    let class = rng.below(7);
    let mut start: u64 = match rng.below(4) {
        0 | 1 => 0,
        2 => rng.range(1, 10),
        _ => rng.range(1, 100_000),
    };
    let mut i = 0;
    while i < n {
        let (adv, len): (u32, u32) = match class {
            0 => {
                // disjoint
                let l = len_from(rng, res);
                (l + gap_from(rng, res), l)
            }
            1 => (rng.below(4) as u32, rng.range(1, 30) as u32), // overlapping chain
            2 => (0, rng.range(1, 50) as u32),                  // identical starts
            3 => (rng.below(3) as u32, len_from(rng, res)),     // heavy overlap
            4 => {
                // nested: long then short inside
                if rng.chance(1, 4) {
                    (rng.below(3) as u32, rng.range(100, 5000) as u32)
                } else {
                    (rng.range(0, 10) as u32, rng.range(1, 5) as u32)
                }
            }
            _ => (gap_from(rng, res), len_from(rng, res)),
        };
        let mut len = len;
        if long_first && (i == 0 || rng.chance(1, 9)) {
            len = rng.range(500, 20_000) as u32;
        }
        if zero_len && rng.chance(1, 6) {
            len = 0;
        }
        let s = start;
        if s == 0 && len == 0 && !zero_zero {
            len = 1;
        }
        if s + len as u64 > 4_000_000_000 {
            break;
        }
        let rest = gen_rest(rng);
        items.push(Item::bed(s as u32, (s + len as u64) as u32, &rest));
        if rng.chance(1, 25) && i + 1 < n {
            // exact duplicate
            let d = items.last().unwrap().clone();
            items.push(d);
            i += 1;
        }
        start += adv as u64;
        i += 1;
    }
    items
}

pub fn gen_opts(rng: &mut Rng, p: &Profile, multipass: bool) -> Opts {
    let mut o = Opts::default();
    o.compress = rng.chance(2, 3);
    o.items_per_slot = *rng.pick(&[1u32, 2, 3, 7, 7, 64, 64, 1024, 65535]);
    o.block_size = *rng.pick(&[2u32, 3, 4, 5, 16, 256, 256]);
    o.channel_size = *rng.pick(&[0usize, 1, 100]);
    o.inmemory = rng.chance(1, 2);
    let zoom_mode = if p.zoom_focus { rng.range(1, 2) } else { rng.below(4) };
    match zoom_mode {
        0 => {
            // defaults
        }
        1 => {
            o.initial_zoom_size = *rng.pick(&[2u32, 5, 10, 10, 50, 160, 1000]);
            o.max_zooms = *rng.pick(&[0u32, 1, 2, 5, 10]);
        }
        2 => {
            let n = rng.range(1, 4);
            let mut v: Vec<u32> = vec![];
            let mut cur = *rng.pick(&[2u32, 3, 5, 8, 10, 16, 50, 160]);
            for _ in 0..n {
                v.push(cur);
                cur = cur.saturating_mul(rng.range(2, 5) as u32);
            }
            let _ = multipass;
            if rng.chance(1, 6) {
                // zero entries are ignored
                let at = rng.below(v.len() as u64 + 1) as usize;
                v.insert(at, 0);
            }
            if rng.chance(1, 6) {
                // repeated size
                let d = v[rng.below(v.len() as u64) as usize];
                v.push(d);
            }
            if rng.chance(1, 5) {
                // any order
                for i in (1..v.len()).rev() {
                    let j = rng.below(i as u64 + 1) as usize;
                    v.swap(i, j);
                }
            }
            o.manual_zooms = Some(v);
        }
        _ => {
            o.manual_zooms = Some(vec![]);
        }
    }
    o
}

pub fn smallest_zoom(o: &Opts) -> u32 {
    match &o.manual_zooms {
        Some(v) => v.iter().copied().filter(|z| *z > 0).min().unwrap_or(10),
        None => o.initial_zoom_size.max(1),
    }
}

pub fn pick_len(rng: &mut Rng, last_end: u32, huge: bool) -> u32 {
    let last_end = last_end.max(1);
    match rng.below(6) {
        0 => last_end,
        1 => last_end.saturating_add(1),
        2 => last_end.saturating_add(rng.range(1, 1000) as u32),
        3 => last_end.max(250_000_000),
        4 if huge => last_end.max(*rng.pick(&[4_000_000_000u32, u32::MAX])),
        _ => last_end.saturating_add(rng.range(1, 100_000) as u32),
    }
}

pub fn gen_pipe_case(rng: &mut Rng, p: &Profile) -> PipeCase {
    let kind = p.kind.unwrap_or(if rng.chance(1, 2) { Kind::Wig } else { Kind::Bed });
    let multipass = p.multipass && rng.chance(1, 3);
    let opts = gen_opts(rng, p, multipass);
    let res = smallest_zoom(&opts);
    let nchroms = match rng.below(10) {
        0..=2 => 1,
        3..=5 => 2,
        _ => rng.range(3, p.max_chroms.max(3)),
    };
    // distinct names; sorted when sort_all
    let mut names: Vec<&str> = vec![];
    while (names.len() as u64) < nchroms {
        let n = *rng.pick(NAMES);
        if !names.contains(&n) {
            names.push(n);
        }
    }
    let mut opts = opts;
    opts.sort_all = rng.chance(2, 3);
    if opts.sort_all {
        names.sort();
    }
    let zero_len = rng.below(1000) < p.zero_len_pm;
    let zero_zero = kind == Kind::Bed && rng.below(1000) < p.bed_zero_zero_pm;
    let size_class = rng.below(10);
    let mut chroms = vec![];
    for name in names {
        let n = match size_class {
            0 => 1,
            1..=3 => rng.range(1, 8),
            4..=7 => rng.range(1, 60.min(p.max_items)),
            _ => rng.range(1, p.max_items),
        };
        // a share of the chromosomes carries its data at very large coordinates
        let base: u32 = if p.huge && rng.chance(1, 12) {
            *rng.pick(&[2_147_483_600u32, 2_147_483_648, 3_000_000_000, 3_999_700_000])
        } else {
            0
        };
        let items = match kind {
            Kind::Wig => gen_wig_items(rng, n, res, zero_len, base),
            Kind::Bed => {
                let mut v = gen_bed_items(rng, n, res, zero_len, p.long_first, zero_zero && base == 0);
                for it in &mut v {
                    let len = it.e - it.s;
                    it.s = it.s.saturating_add(base).min(4_000_000_000);
                    it.e = it.s.saturating_add(len).min(4_000_000_000);
                }
                v
            }
        };
        if items.is_empty() {
            continue;
        }
        let last_end = items.iter().map(|i| i.e).max().unwrap();
        let last_start = items.iter().map(|i| i.s).max().unwrap();
        let mut len = pick_len(rng, last_end, p.huge);
        if kind == Kind::Bed && len <= last_start {
            len = last_start + 1;
        }
        if kind == Kind::Bed && p.bed_past_end && rng.chance(1, 40) && last_end > last_start + 1 {
            // the bigBed writer only checks that an entry *starts* inside the chromosome: let the last entries
            // reach past the chromosome end
            len = last_start + 1 + rng.below((last_end - last_start - 1) as u64) as u32;
        }
        chroms.push(Chrom {
            name: name.to_string(),
            len,
            items,
        });
    }
    if p.scaffolds && rng.chance(1, 120) {
        // hundreds of small chromosomes: chromosome tree with more than 256 entries, index nodes that span
        // many chromosomes
        chroms.clear();
        let n = rng.range(257, 420);
        let width = 4;
        let mut ids: Vec<u64> = (0..n).collect();
        if !opts.sort_all {
            for i in (1..ids.len()).rev() {
                let j = rng.below(i as u64 + 1) as usize;
                ids.swap(i, j);
            }
        }
        for id in ids {
            let k = rng.range(1, 3);
            let len = rng.range(50, 5000) as u32;
            let mut items = vec![];
            let mut pos = rng.below(10) as u32;
            for _ in 0..k {
                let l = 1 + rng.below(20) as u32;
                if pos + l >= len {
                    break;
                }
                items.push(match kind {
                    Kind::Wig => Item::wig(pos, pos + l, f32_pool(rng)),
                    Kind::Bed => Item::bed(pos, pos + l, ""),
                });
                pos += l + rng.below(5) as u32;
            }
            if items.is_empty() {
                items.push(match kind {
                    Kind::Wig => Item::wig(0, 1, 1.0),
                    Kind::Bed => Item::bed(0, 1, ""),
                });
            }
            chroms.push(Chrom {
                name: format!("scaffold_{:0width$}", id, width = width),
                len,
                items,
            });
        }
    }
    if chroms.is_empty() {
        chroms.push(Chrom {
            name: "chr1".into(),
            len: 100,
            items: vec![match kind {
                Kind::Wig => Item::wig(1, 2, 1.0),
                Kind::Bed => Item::bed(1, 2, ""),
            }],
        });
    }
    let mut extra_sizes = vec![];
    if rng.chance(1, 3) {
        extra_sizes.push(("chrUnused".to_string(), rng.range(1, 1_000_000) as u32));
        if rng.chance(1, 2) {
            extra_sizes.push(("0unused".to_string(), 5));
        }
    }
    let source = if p.all_sources {
        match rng.below(6) {
            0 | 1 => Source::SerialIter,
            2 => Source::SerialText,
            3 => Source::ParallelFile,
            _ => Source::Sim {
                inflight: rng.range(1, 5) as u8,
            },
        }
    } else {
        Source::SerialIter
    };
    let sched = if p.sched_chaos && rng.chance(3, 4) {
        Sched::Seeded {
            policy: rng.below(4) as u8,
            seed: rng.next_u64(),
        }
    } else {
        Sched::Calm
    };
    let chaos = p.io_chaos && rng.chance(1, 2);
    let sink = if chaos {
        SinkFaults {
            short_pm: *rng.pick(&[0u16, 100, 400]),
            eintr_pm: *rng.pick(&[0u16, 50, 300]),
            seed: rng.next_u64(),
            fail: None,
            commit_on_flush: false,
        }
    } else {
        SinkFaults::default()
    };
    let read = if chaos {
        ReadFaults {
            short_pm: *rng.pick(&[0u16, 100, 500]),
            eintr_pm: *rng.pick(&[0u16, 50, 300]),
            seed: rng.next_u64(),
            hard: None,
            hard_kind: 0,
        }
    } else {
        ReadFaults::default()
    };
    let autosql = None;
    PipeCase {
        kind,
        chroms,
        extra_sizes,
        opts,
        source,
        multipass,
        autosql,
        sched,
        sink,
        read,
        bad: None,
        mt_threads: 0,
    }
}

//! Property oracles over one executed write (pipesim) - C01, C02, C06, C07, C08, C09.

use std::collections::BTreeMap;
use std::panic::{catch_unwind, AssertUnwindSafe};
use std::sync::Arc;

use bigtools::utils::reopen::Reopen;
use bigtools::{BigBedRead, BigWigRead};

use crate::decode::{self, Decoded};
use crate::model::*;
use crate::oracle::*;
use crate::pipesim::{panic_message, WriteOutcome, WriteResult};
use crate::sink::SimRead;

#[derive(Clone, Debug, PartialEq)]
pub enum Verdict {
    Pass,
    /// not evaluated (e.g. the writer did not accept the input); reason
    Skip(String),
    Violation { class: String, detail: String },
}

pub fn viol(class: &str, detail: String) -> Verdict {
    Verdict::Violation {
        class: class.to_string(),
        detail,
    }
}

/// chromosomes with data, in first-appearance order
pub fn expected_chroms(case: &PipeCase) -> Vec<(String, u32)> {
    let mut out: Vec<(String, u32)> = vec![];
    for c in &case.chroms {
        if !c.items.is_empty() && !out.iter().any(|(n, _)| *n == c.name) {
            out.push((c.name.clone(), c.len));
        }
    }
    out
}

pub fn is_plain(case: &PipeCase) -> bool {
    case.bad.is_none()
        && case
            .chroms
            .iter()
            .all(|c| c.items.iter().all(|i| i.e > i.s))
}

fn guard<F: FnOnce() -> Verdict>(what: &str, f: F) -> Verdict {
    match catch_unwind(AssertUnwindSafe(f)) {
        Ok(v) => v,
        Err(p) => viol("reader-panic", format!("{}: {}", what, panic_message(p))),
    }
}

fn accepted(case: &PipeCase, out: &WriteOutcome) -> Result<(), Verdict> {
    match &out.result {
        WriteResult::Ok => Ok(()),
        WriteResult::Err(e) => {
            if is_plain(case) && case.sink.fail.is_none() {
                Err(viol("refused-valid-input", format!("write returned Err({})", e)))
            } else {
                Err(Verdict::Skip(format!("not accepted: {}", e)))
            }
        }
        WriteResult::Panic(p) => {
            if case.bad.is_none() && case.sink.fail.is_none() {
                Err(viol("write-panic", format!("write panicked: {}", p)))
            } else {
                Err(Verdict::Skip(format!("panicked: {}", p)))
            }
        }
    }
}

fn check_chrom_table(got: &[bigtools::ChromInfo], case: &PipeCase) -> Result<(), Verdict> {
    let want = expected_chroms(case);
    let got_v: Vec<(String, u32)> = got.iter().map(|c| (c.name.clone(), c.length)).collect();
    if got_v != want {
        return Err(viol(
            "chrom-table",
            format!("chromosome table {:?}, expected {:?}", got_v, want),
        ));
    }
    Ok(())
}

fn wig_items_eq(a: &[Item], b: &[Item]) -> bool {
    a.len() == b.len() && a.iter().zip(b).all(|(x, y)| x.s == y.s && x.e == y.e && x.vb == y.vb)
}

fn describe_diff(got: &[Item], want: &[Item]) -> String {
    let n = got.len().min(want.len());
    for k in 0..n {
        if got[k] != want[k] {
            return format!(
                "first difference at record {}: got {:?}, expected {:?} ({} vs {} records)",
                k,
                got[k],
                want[k],
                got.len(),
                want.len()
            );
        }
    }
    format!(
        "{} records returned, {} expected; first extra/missing: {:?}",
        got.len(),
        want.len(),
        if got.len() > n { got.get(n) } else { want.get(n) }
    )
}

/// C01
pub fn check_c01(case: &PipeCase, out: &WriteOutcome) -> Verdict {
    if let Err(v) = accepted(case, out) {
        return v;
    }
    let img = Arc::new(out.image.clone());
    guard("bigWig read-back", || {
        let rd = SimRead::new(img.clone(), &case.read);
        let mut bw = match BigWigRead::open(rd) {
            Ok(b) => b,
            Err(e) => return viol("open-failed", format!("BigWigRead::open: {}", e)),
        };
        if let Err(v) = check_chrom_table(bw.chroms(), case) {
            return v;
        }
        let mut edge: Option<Verdict> = None;
        for c in &case.chroms {
            let got: Vec<Item> = match bw.get_interval(&c.name, 0, c.len) {
                Ok(it) => {
                    let mut v = vec![];
                    for x in it {
                        match x {
                            Ok(x) => v.push(Item::wig(x.start, x.end, x.value)),
                            Err(e) => return viol("read-error", format!("get_interval({}): {}", c.name, e)),
                        }
                    }
                    v
                }
                Err(e) => return viol("read-error", format!("get_interval({}): {}", c.name, e)),
            };
            if !wig_items_eq(&got, &c.items) {
                // known edge: zero-length values at position 0 / at the chromosome end
                let trimmed: Vec<Item> = c
                    .items
                    .iter()
                    .filter(|i| !(i.s == i.e && (i.s == 0 || i.s == c.len)))
                    .cloned()
                    .collect();
                if wig_items_eq(&got, &trimmed) {
                    // remember, but keep checking everything else: a different violation must still be reported
                    edge = Some(viol(
                        "zero-length-at-edge-dropped",
                        format!(
                            "chromosome {} (len {}): zero-length value(s) at 0 or at the end not returned by the full-span query",
                            c.name, c.len
                        ),
                    ));
                    continue;
                }
                return viol("content-mismatch", format!("chromosome {}: {}", c.name, describe_diff(&got, &c.items)));
            }
        }
        // same through the caching reader and a reopened one
        let rd2 = SimRead::new(img.clone(), &case.read);
        let mut cached = match BigWigRead::open(rd2) {
            Ok(b) => b.cached(),
            Err(e) => return viol("open-failed", format!("second open: {}", e)),
        };
        let mut reopened = match bw.reopen() {
            Ok(r) => r,
            Err(e) => return viol("read-error", format!("reopen: {}", e)),
        };
        for c in &case.chroms {
            let want: Vec<Item> = c
                .items
                .iter()
                .filter(|i| !(i.s == i.e && (i.s == 0 || i.s == c.len)))
                .cloned()
                .collect();
            for pass in 0..2 {
                let a: Result<Vec<_>, _> = match cached.get_interval(&c.name, 0, c.len) {
                    Ok(i) => i.collect(),
                    Err(e) => Err(e),
                };
                match a {
                    Ok(v) => {
                        let got: Vec<Item> = v.iter().map(|x| Item::wig(x.start, x.end, x.value)).collect();
                        if !wig_items_eq(&got, &want) && !wig_items_eq(&got, &c.items) {
                            return viol(
                                "cached-mismatch",
                                format!("cached reader pass {} chromosome {}: {}", pass, c.name, describe_diff(&got, &c.items)),
                            );
                        }
                    }
                    Err(e) => return viol("read-error", format!("cached get_interval: {}", e)),
                }
            }
            let a: Result<Vec<_>, _> = match reopened.get_interval(&c.name, 0, c.len) {
                Ok(i) => i.collect(),
                Err(e) => Err(e),
            };
            match a {
                Ok(v) => {
                    let got: Vec<Item> = v.iter().map(|x| Item::wig(x.start, x.end, x.value)).collect();
                    if !wig_items_eq(&got, &want) && !wig_items_eq(&got, &c.items) {
                        return viol(
                            "reopened-mismatch",
                            format!("reopened reader chromosome {}: {}", c.name, describe_diff(&got, &c.items)),
                        );
                    }
                }
                Err(e) => return viol("read-error", format!("reopened get_interval: {}", e)),
            }
        }
        edge.unwrap_or(Verdict::Pass)
    })
}

pub fn expected_field_count(autosql: &Option<String>) -> Option<u16> {
    // number of fields of the last declaration, counted independently of bigtools' parser for the
    // simple schemas the generator emits: fields are the ';'-terminated entries between the outer parentheses
    let text = match autosql {
        None => return Some(3),
        Some(t) => t,
    };
    let open = text.rfind('(')?;
    // find the matching outer '(' of the last declaration: scan declarations
    let _ = open;
    let mut depth = 0i32;
    let mut count = 0u16;
    let mut last_count = None;
    let mut in_str = false;
    for ch in text.chars() {
        match ch {
            '"' => in_str = !in_str,
            '(' if !in_str => {
                depth += 1;
                if depth == 1 {
                    count = 0;
                }
            }
            ')' if !in_str => {
                depth -= 1;
                if depth == 0 {
                    last_count = Some(count);
                }
            }
            ';' if !in_str && depth == 1 => count += 1,
            _ => {}
        }
    }
    last_count
}

/// C02
pub fn check_c02(case: &PipeCase, out: &WriteOutcome) -> Verdict {
    if let Err(v) = accepted(case, out) {
        return v;
    }
    let img = Arc::new(out.image.clone());
    guard("bigBed read-back", || {
        let rd = SimRead::new(img.clone(), &case.read);
        let mut bb = match BigBedRead::open(rd) {
            Ok(b) => b,
            Err(e) => return viol("open-failed", format!("BigBedRead::open: {}", e)),
        };
        if let Err(v) = check_chrom_table(bb.chroms(), case) {
            return v;
        }
        let total: u64 = case.chroms.iter().map(|c| c.items.len() as u64).sum();
        match bb.item_count() {
            Ok(n) if n == total => {}
            Ok(n) => return viol("item-count", format!("item_count() = {}, {} entries written", n, total)),
            Err(e) => return viol("read-error", format!("item_count: {}", e)),
        }
        match bb.autosql() {
            Ok(got) => {
                let want = case
                    .autosql
                    .clone()
                    .unwrap_or_else(|| bigtools::bed::autosql::BED3.to_string());
                if got.as_deref() != Some(want.as_str()) {
                    return viol("autosql", format!("autosql() = {:?}, supplied {:?}", got, want));
                }
            }
            Err(e) => return viol("read-error", format!("autosql: {}", e)),
        }
        if let Some(fc) = expected_field_count(&case.autosql) {
            let got = bb.info().header.field_count;
            if got != fc {
                return viol("field-count", format!("header.field_count = {}, schema declares {}", got, fc));
            }
        }
        let mut cached = match BigBedRead::open(SimRead::new(img.clone(), &case.read)) {
            Ok(b) => b.cached(),
            Err(e) => return viol("open-failed", format!("second open: {}", e)),
        };
        for c in &case.chroms {
            let mut got_all: Vec<Vec<Item>> = vec![];
            for which in 0..2 {
                let res: Result<Vec<bigtools::BedEntry>, bigtools::BBIReadError> = if which == 0 {
                    match bb.get_interval(&c.name, 0, c.len) {
                        Ok(i) => i.collect(),
                        Err(e) => Err(e),
                    }
                } else {
                    match cached.get_interval(&c.name, 0, c.len) {
                        Ok(i) => i.collect(),
                        Err(e) => Err(e),
                    }
                };
                match res {
                    Ok(v) => got_all.push(v.iter().map(|x| Item::bed(x.start, x.end, &x.rest)).collect()),
                    Err(e) => {
                        let msg = format!("{}", e);
                        if msg.contains("Chrom start and end both equal 0")
                            && c.items.iter().any(|i| i.s == 0 && i.e == 0)
                        {
                            return viol(
                                "bed-zero-zero-entry-unreadable",
                                format!("chromosome {}: entry [0,0) was written, reading its block fails: {}", c.name, msg),
                            );
                        }
                        return viol("read-error", format!("get_interval({}): {}", c.name, msg));
                    }
                }
            }
            for (which, got) in got_all.iter().enumerate() {
                if *got != c.items {
                    return viol(
                        if which == 0 { "content-mismatch" } else { "cached-mismatch" },
                        format!("chromosome {}: {}", c.name, describe_diff(got, &c.items)),
                    );
                }
            }
        }
        Verdict::Pass
    })
}

pub fn whole_file_stats(case: &PipeCase) -> (Stats, Vec<f64>) {
    let mut tot = Stats {
        min: f64::INFINITY,
        max: f64::NEG_INFINITY,
        ..Default::default()
    };
    let mut zero_len = vec![];
    for c in &case.chroms {
        let segs = signal(case.kind, &c.items);
        let st = stats_in(&segs, 0, u32::MAX);
        // stats_in clips at u32::MAX exclusive; coordinates never reach it in generated workloads
        tot.bases += st.bases;
        tot.min = tot.min.min(st.min);
        tot.max = tot.max.max(st.max);
        tot.sum += st.sum;
        tot.sumsq += st.sumsq;
        tot.abs_sum += st.abs_sum;
        tot.abs_sumsq += st.abs_sumsq;
        if case.kind == Kind::Wig {
            for i in &c.items {
                if i.e == i.s {
                    zero_len.push(i.v() as f64);
                }
            }
        }
    }
    (tot, zero_len)
}

pub fn check_summary_values(
    what: &str,
    got: (u64, f64, f64, f64, f64),
    want: &Stats,
    zero_len: &[f64],
) -> Result<(), Verdict> {
    let (bases, min, max, sum, sumsq) = got;
    if bases != want.bases {
        return Err(viol(
            "summary-bases",
            format!("{}: bases covered {} but the data covers {}", what, bases, want.bases),
        ));
    }
    if want.bases > 0 {
        let min_ok = min == want.min || zero_len.iter().any(|z| *z == min && *z < want.min);
        let max_ok = max == want.max || zero_len.iter().any(|z| *z == max && *z > want.max);
        if !min_ok {
            return Err(viol("summary-min", format!("{}: min {} expected {}", what, min, want.min)));
        }
        if !max_ok {
            return Err(viol("summary-max", format!("{}: max {} expected {}", what, max, want.max)));
        }
    }
    if !f64_close(sum, want.sum, want.abs_sum) {
        return Err(viol("summary-sum", format!("{}: sum {} expected {}", what, sum, want.sum)));
    }
    if !f64_close(sumsq, want.sumsq, want.abs_sumsq) {
        return Err(viol(
            "summary-sumsq",
            format!("{}: sum of squares {} expected {}", what, sumsq, want.sumsq),
        ));
    }
    Ok(())
}

/// C06
pub fn check_c06(case: &PipeCase, out: &WriteOutcome) -> Verdict {
    if let Err(v) = accepted(case, out) {
        return v;
    }
    let img = Arc::new(out.image.clone());
    let (want, zero_len) = whole_file_stats(case);
    guard("summary read-back", || {
        let rd = SimRead::new(img.clone(), &case.read);
        let s = match case.kind {
            Kind::Wig => {
                let mut bw = match BigWigRead::open(rd) {
                    Ok(b) => b,
                    Err(e) => return viol("open-failed", format!("open: {}", e)),
                };
                match bw.get_summary() {
                    Ok(s) => s,
                    Err(e) => return viol("read-error", format!("get_summary: {}", e)),
                }
            }
            Kind::Bed => {
                let mut bb = match BigBedRead::open(rd) {
                    Ok(b) => b,
                    Err(e) => return viol("open-failed", format!("open: {}", e)),
                };
                let total: u64 = case.chroms.iter().map(|c| c.items.len() as u64).sum();
                match bb.item_count() {
                    Ok(n) if n == total => {}
                    Ok(n) => return viol("item-count", format!("item_count() = {}, {} entries written", n, total)),
                    Err(e) => return viol("read-error", format!("item_count: {}", e)),
                }
                match bb.get_summary() {
                    Ok(s) => {
                        if s.total_items != total {
                            return viol(
                                "item-count",
                                format!("summary.total_items = {}, {} entries written", s.total_items, total),
                            );
                        }
                        s
                    }
                    Err(e) => return viol("read-error", format!("get_summary: {}", e)),
                }
            }
        };
        match check_summary_values(
            "get_summary()",
            (s.bases_covered, s.min_val, s.max_val, s.sum, s.sum_squares),
            &want,
            &zero_len,
        ) {
            Ok(()) => Verdict::Pass,
            Err(v) => v,
        }
    })
}

fn zero_len_values(case: &PipeCase, c: &Chrom) -> Vec<f64> {
    if case.kind == Kind::Wig {
        c.items.iter().filter(|i| i.e == i.s).map(|i| i.v() as f64).collect()
    } else {
        vec![]
    }
}

/// Zoom content validation shared by C07/C08/C09 (independent decode of every zoom block).
pub fn check_zoom_content(case: &PipeCase, dec: &Decoded) -> Result<(), Verdict> {
    let mut prev_red: Option<u32> = None;
    for z in &dec.zooms {
        if let Some(p) = prev_red {
            if z.reduction <= p {
                return Err(viol(
                    "zoom-order",
                    format!("zoom levels not strictly increasing: {} after {}", z.reduction, p),
                ));
            }
        }
        prev_red = Some(z.reduction);
        // records per chromosome id in index order
        let mut by_chrom: BTreeMap<u32, Vec<decode::DZoomRec>> = BTreeMap::new();
        let mut last_chrom: Option<u32> = None;
        for blk in &z.blocks {
            for r in blk {
                if let Some(lc) = last_chrom {
                    if r.chrom < lc {
                        return Err(viol(
                            "zoom-record-order",
                            format!("zoom {}: chromosome {} after {}", z.reduction, r.chrom, lc),
                        ));
                    }
                }
                last_chrom = Some(r.chrom);
                by_chrom.entry(r.chrom).or_default().push(r.clone());
            }
        }
        for c in &case.chroms {
            let dc = match dec.chrom_by_name(&c.name) {
                Some(d) => d,
                None => {
                    if c.items.is_empty() {
                        continue;
                    }
                    return Err(viol("chrom-table", format!("chromosome {} missing from the file", c.name)));
                }
            };
            let segs = signal(case.kind, &c.items);
            let recs = by_chrom.remove(&dc.id).unwrap_or_default();
            for r in &recs {
                if r.end > c.len && r.end as u64 > segs.last().map(|g| g.e as u64).unwrap_or(0) {
                    return Err(viol(
                        "zoom-content",
                        format!(
                            "zoom {} chromosome {}: record [{}, {}) extends past the chromosome and the data",
                            z.reduction, c.name, r.start, r.end
                        ),
                    ));
                }
            }
            if let Err(e) = check_zoom_level(&recs, &segs, z.reduction, &zero_len_values(case, c)) {
                return Err(viol(
                    "zoom-content",
                    format!("zoom {} chromosome {}: {}", z.reduction, c.name, e),
                ));
            }
        }
        if let Some((id, _)) = by_chrom.iter().next() {
            return Err(viol(
                "zoom-content",
                format!("zoom {}: records for unknown chromosome id {}", z.reduction, id),
            ));
        }
    }
    Ok(())
}

fn zoom_queries(c: &Chrom, recs: &[decode::DZoomRec], reduction: u32) -> Vec<(u32, u32)> {
    let mut q = vec![(0, c.len)];
    let mut push = |s: i64, e: i64| {
        let s = s.max(0).min(c.len as i64) as u32;
        let e = e.max(0).min(c.len as i64) as u32;
        if s < e {
            q.push((s, e));
        }
    };
    let pick: Vec<&decode::DZoomRec> = if recs.len() <= 6 {
        recs.iter().collect()
    } else {
        vec![&recs[0], &recs[1], &recs[recs.len() / 2], &recs[recs.len() - 2], &recs[recs.len() - 1]]
    };
    for r in pick {
        let (s, e) = (r.start as i64, r.end as i64);
        push(s, e);
        push(s - 1, s);
        push(e, e + 1);
        push(s, s + 1);
        push(e - 1, e);
        push(s + 1, e + reduction as i64);
        push(e - 1, e + 3 * reduction as i64);
        push(s - 2 * reduction as i64, s + 1);
    }
    q
}

/// C07 / C08
pub fn check_zooms(case: &PipeCase, out: &WriteOutcome) -> Verdict {
    if let Err(v) = accepted(case, out) {
        return v;
    }
    let dec = match decode::decode(&out.image) {
        Ok(d) => d,
        Err(e) => return viol("undecodable", e),
    };
    if let Err(v) = check_zoom_content(case, &dec) {
        return v;
    }
    let img = Arc::new(out.image.clone());
    guard("zoom queries", || {
        // listed levels through the reader must be the decoded ones, strictly increasing
        enum R {
            W(BigWigRead<SimRead>),
            B(BigBedRead<SimRead>),
            WC(BigWigRead<bigtools::CachedBBIFileRead<SimRead>>),
            BC(BigBedRead<bigtools::CachedBBIFileRead<SimRead>>),
        }
        let rd = SimRead::new(img.clone(), &case.read);
        let mut r = match case.kind {
            Kind::Wig => match BigWigRead::open(rd) {
                Ok(b) => R::W(b),
                Err(e) => return viol("open-failed", format!("open: {}", e)),
            },
            Kind::Bed => match BigBedRead::open(rd) {
                Ok(b) => R::B(b),
                Err(e) => return viol("open-failed", format!("open: {}", e)),
            },
        };
        let listed: Vec<u32> = match &r {
            R::W(b) => b.info().zoom_headers.iter().map(|z| z.reduction_level).collect(),
            R::B(b) => b.info().zoom_headers.iter().map(|z| z.reduction_level).collect(),
            _ => vec![],
        };
        if listed.windows(2).any(|w| w[1] <= w[0]) {
            return viol("zoom-order", format!("zoom_headers not strictly increasing: {:?}", listed));
        }
        let dec_levels: Vec<u32> = dec.zooms.iter().map(|z| z.reduction).collect();
        if listed != dec_levels {
            return viol("zoom-order", format!("reader lists {:?}, file holds {:?}", listed, dec_levels));
        }
        // the same queries twice: on the plain reader, then (in reverse order, one instance living through the
        // whole history) on the caching reader
        for flavour in 0..2 {
        if flavour == 1 {
            let rd = SimRead::new(img.clone(), &case.read);
            r = match case.kind {
                Kind::Wig => match BigWigRead::open(rd) {
                    Ok(b) => R::WC(b.cached()),
                    Err(e) => return viol("open-failed", format!("open: {}", e)),
                },
                Kind::Bed => match BigBedRead::open(rd) {
                    Ok(b) => R::BC(b.cached()),
                    Err(e) => return viol("open-failed", format!("open: {}", e)),
                },
            };
        }
        let levels: Vec<&decode::DZoom> = if flavour == 0 { dec.zooms.iter().collect() } else { dec.zooms.iter().rev().collect() };
        for z in levels {
            for c in &case.chroms {
                let dc = match dec.chrom_by_name(&c.name) {
                    Some(d) => d,
                    None => continue,
                };
                let recs: Vec<decode::DZoomRec> = z
                    .blocks
                    .iter()
                    .flatten()
                    .filter(|r| r.chrom == dc.id)
                    .cloned()
                    .collect();
                let mut queries = zoom_queries(c, &recs, z.reduction);
                if flavour == 1 {
                    queries.reverse();
                }
                for (s, e) in queries {
                    let got: Result<Vec<bigtools::ZoomRecord>, String> = match &mut r {
                        R::WC(b) => match b.get_zoom_interval(&c.name, s, e, z.reduction) {
                            Ok(i) => i.collect::<Result<Vec<_>, _>>().map_err(|e| format!("{}", e)),
                            Err(e) => Err(format!("{}", e)),
                        },
                        R::BC(b) => match b.get_zoom_interval(&c.name, s, e, z.reduction) {
                            Ok(i) => i.collect::<Result<Vec<_>, _>>().map_err(|e| format!("{}", e)),
                            Err(e) => Err(format!("{}", e)),
                        },
                        R::W(b) => match b.get_zoom_interval(&c.name, s, e, z.reduction) {
                            Ok(i) => i.collect::<Result<Vec<_>, _>>().map_err(|e| format!("{}", e)),
                            Err(e) => Err(format!("{}", e)),
                        },
                        R::B(b) => match b.get_zoom_interval(&c.name, s, e, z.reduction) {
                            Ok(i) => i.collect::<Result<Vec<_>, _>>().map_err(|e| format!("{}", e)),
                            Err(e) => Err(format!("{}", e)),
                        },
                    };
                    let got = match got {
                        Ok(g) => g,
                        Err(e) => {
                            return viol(
                                "read-error",
                                format!("get_zoom_interval({}, {}, {}, {}): {}", c.name, s, e, z.reduction, e),
                            )
                        }
                    };
                    // every record intersecting the range, nothing that does not touch it, in order
                    let mut gi = 0usize;
                    for rec in &recs {
                        let must = rec.end > s && rec.start < e;
                        let may = rec.end >= s && rec.start <= e;
                        let present = gi < got.len() && got[gi].start == rec.start && got[gi].end == rec.end;
                        if present {
                            if !may {
                                return viol(
                                    "zoom-query",
                                    format!(
                                        "zoom {} {}:[{},{}) returned record [{}, {}) which does not touch the range",
                                        z.reduction, c.name, s, e, rec.start, rec.end
                                    ),
                                );
                            }
                            let g = &got[gi];
                            if g.summary.bases_covered != rec.valid as u64
                                || g.summary.min_val as f32 != rec.min
                                || g.summary.max_val as f32 != rec.max
                                || (g.summary.sum as f32).to_bits() != rec.sum.to_bits()
                                || (g.summary.sum_squares as f32).to_bits() != rec.sumsq.to_bits()
                            {
                                return viol(
                                    "zoom-query",
                                    format!(
                                        "zoom {} {}:[{},{}) record [{}, {}) returned with different statistics than stored",
                                        z.reduction, c.name, s, e, rec.start, rec.end
                                    ),
                                );
                            }
                            gi += 1;
                        } else if must {
                            return viol(
                                "zoom-query",
                                format!(
                                    "zoom {} {}:[{},{}) misses record [{}, {}) (returned {} records)",
                                    z.reduction,
                                    c.name,
                                    s,
                                    e,
                                    rec.start,
                                    rec.end,
                                    got.len()
                                ),
                            );
                        }
                    }
                    if gi != got.len() {
                        return viol(
                            "zoom-query",
                            format!(
                                "zoom {} {}:[{},{}) returned {} records that are not stored for this chromosome in order",
                                z.reduction,
                                c.name,
                                s,
                                e,
                                got.len() - gi
                            ),
                        );
                    }
                }
            }
        }
        }
        Verdict::Pass
    })
}

/// C09 (Rust half): the image must be well-formed for the independent decoder and decode to the model.
pub fn check_c09(case: &PipeCase, out: &WriteOutcome) -> Verdict {
    if let Err(v) = accepted(case, out) {
        return v;
    }
    let dec = match decode::decode(&out.image) {
        Ok(d) => d,
        Err(e) => return viol("undecodable", e),
    };
    if let Some(p) = dec.problems.first() {
        return viol("malformed", format!("{} ({} problems)", p, dec.problems.len()));
    }
    if dec.is_bigwig != (case.kind == Kind::Wig) {
        return viol("malformed", "wrong file type magic".into());
    }
    if dec.version != 4 {
        return viol("malformed", format!("version {}", dec.version));
    }
    if (dec.uncompress_buf_size > 0) != case.opts.compress {
        // a compressed file with no blocks at all cannot happen: every accepted input has data
        return viol(
            "malformed",
            format!(
                "uncompressBufSize {} but compress={}",
                dec.uncompress_buf_size, case.opts.compress
            ),
        );
    }
    // chromosome table
    let want = expected_chroms(case);
    let mut got: Vec<(u32, String, u32)> = dec.chroms.iter().map(|c| (c.id, c.name.clone(), c.len)).collect();
    got.sort();
    let got2: Vec<(String, u32)> = got.iter().map(|(_, n, l)| (n.clone(), *l)).collect();
    if got2 != want {
        return viol("chrom-table", format!("decoded chromosome table {:?}, expected {:?}", got2, want));
    }
    // records
    let recs = dec.records_by_chrom();
    for c in &case.chroms {
        let id = dec.chrom_by_name(&c.name).map(|d| d.id).unwrap_or(u32::MAX);
        let got = recs.get(&id).cloned().unwrap_or_default();
        if got != c.items {
            return viol(
                "decoded-content",
                format!("chromosome {}: {}", c.name, describe_diff(&got, &c.items)),
            );
        }
    }
    if case.opts.items_per_slot != dec.main_index.items_per_slot {
        return viol(
            "malformed",
            format!(
                "index itemsPerSlot {} but option was {}",
                dec.main_index.items_per_slot, case.opts.items_per_slot
            ),
        );
    }
    if dec.main_index.block_size != case.opts.block_size {
        return viol(
            "malformed",
            format!("index blockSize {} but option was {}", dec.main_index.block_size, case.opts.block_size),
        );
    }
    // data count: sections for bigWig, entries for bigBed
    let want_count = match case.kind {
        Kind::Wig => dec.blocks.len() as u64,
        Kind::Bed => case.total_items() as u64,
    };
    if dec.data_count != want_count {
        return viol("malformed", format!("dataCount {} expected {}", dec.data_count, want_count));
    }
    if case.kind == Kind::Bed {
        let want_sql = case
            .autosql
            .clone()
            .unwrap_or_else(|| bigtools::bed::autosql::BED3.to_string());
        if dec.autosql.as_deref() != Some(want_sql.as_str()) {
            return viol("autosql", format!("decoded autoSql {:?}", dec.autosql));
        }
        if let Some(fc) = expected_field_count(&case.autosql) {
            if dec.field_count != fc || dec.defined_field_count > dec.field_count {
                return viol(
                    "field-count",
                    format!(
                        "fieldCount {} definedFieldCount {} expected {}",
                        dec.field_count, dec.defined_field_count, fc
                    ),
                );
            }
        }
    }
    // summary
    let (want_stats, zero_len) = whole_file_stats(case);
    match dec.summary {
        Some(s) => {
            if let Err(v) = check_summary_values("decoded total summary", s, &want_stats, &zero_len) {
                return v;
            }
        }
        None => return viol("malformed", "no total summary".into()),
    }
    if let Err(v) = check_zoom_content(case, &dec) {
        return v;
    }
    Verdict::Pass
}

/// C09, second decoder: the Python decoder (tools/pydecode.py: struct + zlib only) judges the same image.
/// A disagreement between the two decoders is a harness error, not a violation.
pub fn check_c09_python(case: &PipeCase, image: &[u8]) -> Verdict {
    use std::io::Write;
    let script = crate::driver::root().join("tools/pydecode.py");
    let mut tmp = match tempfile::NamedTempFile::new() {
        Ok(t) => t,
        Err(e) => return Verdict::Skip(format!("HARNESS: scratch file: {}", e)),
    };
    if tmp.write_all(image).and_then(|_| tmp.flush()).is_err() {
        return Verdict::Skip("HARNESS: scratch write".into());
    }
    let out = match std::process::Command::new("python3").arg(&script).arg(tmp.path()).output() {
        Ok(o) => o,
        Err(e) => return Verdict::Skip(format!("HARNESS: cannot run python3: {}", e)),
    };
    let line = String::from_utf8_lossy(&out.stdout);
    let v: serde_json::Value = match serde_json::from_str(line.lines().next().unwrap_or("")) {
        Ok(v) => v,
        Err(e) => {
            return Verdict::Skip(format!(
                "HARNESS: python decoder output unparsable: {} / {}",
                e,
                String::from_utf8_lossy(&out.stderr).chars().take(200).collect::<String>()
            ))
        }
    };
    if let Some(e) = v["error"].as_str() {
        return viol("py-undecodable", e.to_string());
    }
    if let Some(p) = v["problems"].as_array().and_then(|a| a.first()) {
        return viol("py-malformed", format!("{} ({} problems)", p, v["problems"].as_array().map(|a| a.len()).unwrap_or(0)));
    }
    // chromosome table and records against the model
    let mut table: Vec<(u64, String, u64)> = v["chroms"]
        .as_array()
        .map(|a| {
            a.iter()
                .map(|c| (c[1].as_u64().unwrap_or(u64::MAX), c[0].as_str().unwrap_or("").to_string(), c[2].as_u64().unwrap_or(0)))
                .collect()
        })
        .unwrap_or_default();
    table.sort();
    let got_table: Vec<(String, u32)> = table.iter().map(|(_, n, l)| (n.clone(), *l as u32)).collect();
    if got_table != expected_chroms(case) {
        return viol("py-chrom-table", format!("python decoder reads chromosome table {:?}", got_table));
    }
    for c in &case.chroms {
        let id = match table.iter().find(|(_, n, _)| *n == c.name) {
            Some((id, _, _)) => *id,
            None => continue,
        };
        let recs = v["records"][id.to_string()].as_array().cloned().unwrap_or_default();
        if recs.len() != c.items.len() {
            return viol(
                "py-decoded-content",
                format!("chromosome {}: python decoder reads {} records, input had {}", c.name, recs.len(), c.items.len()),
            );
        }
        for (k, (r, it)) in recs.iter().zip(&c.items).enumerate() {
            let same = r[0].as_u64() == Some(it.s as u64)
                && r[1].as_u64() == Some(it.e as u64)
                && match case.kind {
                    Kind::Wig => r[2].as_u64() == Some(it.vb as u64),
                    Kind::Bed => r[2].as_str() == Some(it.rest.as_str()),
                };
            if !same {
                return viol(
                    "py-decoded-content",
                    format!("chromosome {} record {}: python decoder reads {}, input {:?}", c.name, k, r, it),
                );
            }
        }
    }
    // cross-check with the Rust decoder: summary bits and zoom records must be read identically
    let dec = match decode::decode(image) {
        Ok(d) => d,
        Err(e) => return Verdict::Skip(format!("HARNESS: decoders disagree (rust fails: {})", e)),
    };
    if let Some(s) = dec.summary {
        let want = vec![
            serde_json::json!(s.0),
            serde_json::json!(format!("{:016x}", s.1.to_bits())),
            serde_json::json!(format!("{:016x}", s.2.to_bits())),
            serde_json::json!(format!("{:016x}", s.3.to_bits())),
            serde_json::json!(format!("{:016x}", s.4.to_bits())),
        ];
        if v["summary"].as_array() != Some(&want) {
            return Verdict::Skip(format!("HARNESS: decoders disagree on the summary: {} vs {:?}", v["summary"], want));
        }
    }
    let zs = v["zooms"].as_array().cloned().unwrap_or_default();
    if zs.len() != dec.zooms.len() {
        return Verdict::Skip("HARNESS: decoders disagree on the number of zoom levels".into());
    }
    for (pz, rz) in zs.iter().zip(&dec.zooms) {
        let precs = pz[1].as_array().cloned().unwrap_or_default();
        let rrecs: Vec<&decode::DZoomRec> = rz.blocks.iter().flatten().collect();
        if pz[0].as_u64() != Some(rz.reduction as u64) || precs.len() != rrecs.len() {
            return Verdict::Skip(format!("HARNESS: decoders disagree on zoom level {}", rz.reduction));
        }
        for (p, r) in precs.iter().zip(&rrecs) {
            let w = [
                r.chrom as u64,
                r.start as u64,
                r.end as u64,
                r.valid as u64,
                r.min.to_bits() as u64,
                r.max.to_bits() as u64,
                r.sum.to_bits() as u64,
                r.sumsq.to_bits() as u64,
            ];
            let g: Vec<u64> = p.as_array().map(|a| a.iter().map(|x| x.as_u64().unwrap_or(u64::MAX)).collect()).unwrap_or_default();
            if g != w {
                return Verdict::Skip(format!("HARNESS: decoders disagree on a zoom record of level {}", rz.reduction));
            }
        }
    }
    Verdict::Pass
}

/// C06, low rate: the same numbers through `bigtools bigwiginfo` / `bigbedinfo` (built multicall binary, subprocess).
pub fn check_c06_info_tool(case: &PipeCase, image: &[u8]) -> Verdict {
    use std::io::Write;
    let bin = match std::env::var("VERIF_BIGTOOLS_BIN") {
        Ok(b) if std::path::Path::new(&b).exists() => b,
        _ => return Verdict::Pass, // binary not built for this run: the reader-level oracle already passed
    };
    let mut tmp = match tempfile::NamedTempFile::new() {
        Ok(t) => t,
        Err(e) => return Verdict::Skip(format!("HARNESS: scratch file: {}", e)),
    };
    if tmp.write_all(image).and_then(|_| tmp.flush()).is_err() {
        return Verdict::Skip("HARNESS: scratch write".into());
    }
    let sub = if case.kind == Kind::Wig { "bigwiginfo" } else { "bigbedinfo" };
    let mut cmd = std::process::Command::new(&bin);
    cmd.arg(sub).arg(tmp.path());
    let out = match crate::pipesim::output_with_deadline(cmd, 60) {
        Ok(o) => o,
        Err(e) if e.kind() == std::io::ErrorKind::TimedOut => return viol("info-tool", format!("{} {}", sub, e)),
        Err(e) => return Verdict::Skip(format!("HARNESS: cannot run {}: {}", bin, e)),
    };
    if !out.status.success() {
        return viol(
            "info-tool",
            format!("{} failed: {}", sub, String::from_utf8_lossy(&out.stderr).chars().take(200).collect::<String>()),
        );
    }
    let text = String::from_utf8_lossy(&out.stdout).to_string();
    let field = |name: &str| -> Option<String> {
        text.lines()
            .find_map(|l| l.strip_prefix(name).map(|r| r.trim().to_string()))
    };
    let (want, zero_len) = whole_file_stats(case);
    let bases: Option<u64> = field("basesCovered:").and_then(|s| s.replace(',', "").parse().ok());
    if bases != Some(want.bases) {
        return viol("info-tool", format!("{} prints basesCovered {:?}, the data covers {}", sub, bases, want.bases));
    }
    if case.kind == Kind::Bed {
        let items: Option<u64> = field("itemCount:").and_then(|s| s.parse().ok());
        if items != Some(case.total_items() as u64) {
            return viol("info-tool", format!("bigbedinfo prints itemCount {:?}, {} entries written", items, case.total_items()));
        }
    }
    if want.bases > 0 {
        let (minname, maxname, meanname) = if case.kind == Kind::Wig { ("min:", "max:", "mean:") } else { ("minDepth:", "maxDepth:", "meanDepth:") };
        let parse = |n: &str| field(n).and_then(|s| s.parse::<f64>().ok());
        let close = |got: Option<f64>, want: f64| match got {
            Some(g) => (g - want).abs() <= 1e-6 * want.abs().max(1.0) + 1e-6 || (g.is_infinite() && want.abs() > 1e300),
            None => false,
        };
        let min_ok = close(parse(minname), want.min) || zero_len.iter().any(|z| close(parse(minname), *z) && *z < want.min);
        let max_ok = close(parse(maxname), want.max) || zero_len.iter().any(|z| close(parse(maxname), *z) && *z > want.max);
        if !min_ok || !max_ok {
            return viol(
                "info-tool",
                format!("{} prints min {:?} max {:?}, expected {} {}", sub, parse(minname), parse(maxname), want.min, want.max),
            );
        }
        let mean = want.sum / want.bases as f64;
        let tol = 1e-6 * (want.abs_sum / want.bases as f64).max(1.0) + 1e-6;
        match parse(meanname) {
            Some(g) if (g - mean).abs() <= tol || !mean.is_finite() => {}
            g => return viol("info-tool", format!("{} prints mean {:?}, expected {}", sub, g, mean)),
        }
    }
    Verdict::Pass
}

/// C08, low rate: `bigbedtobed --zoom R` (single-threaded converter, in-process) must list the stored zoom records.
pub fn check_c08_zoom_tool(case: &PipeCase, image: &[u8]) -> Verdict {
    if case.kind != Kind::Bed {
        return Verdict::Pass;
    }
    let dec = match decode::decode(image) {
        Ok(d) => d,
        Err(e) => return viol("undecodable", e),
    };
    let Some(z) = dec.zooms.first() else { return Verdict::Pass };
    let dir = match tempfile::tempdir() {
        Ok(d) => d,
        Err(e) => return Verdict::Skip(format!("HARNESS: tempdir: {}", e)),
    };
    let big = dir.path().join("in.bb");
    let outp = dir.path().join("zoom.txt");
    if std::fs::write(&big, image).is_err() {
        return Verdict::Skip("HARNESS: scratch write".into());
    }
    let res = catch_unwind(AssertUnwindSafe(|| -> Result<(), String> {
        let r = BigBedRead::open_file(&big).map_err(|e| e.to_string())?;
        let f = std::fs::File::create(&outp).map_err(|e| e.to_string())?;
        bigtools::utils::cli::bigbedtobed::write_bed_singlethreaded(r, f, None, None, None, Some(z.reduction)).map_err(|e| e.to_string())
    }));
    match res {
        Err(p) => return viol("reader-panic", format!("bigbedtobed --zoom: {}", panic_message(p))),
        Ok(Err(e)) => return viol("read-error", format!("bigbedtobed --zoom: {}", e)),
        Ok(Ok(())) => {}
    }
    let text = std::fs::read_to_string(&outp).unwrap_or_default();
    let mut want: Vec<(String, u32, u32, u32)> = vec![];
    let mut by_id: Vec<&decode::DChrom> = dec.chroms.iter().collect();
    by_id.sort_by_key(|c| c.id);
    // the tool walks the chromosome table in its order (= id order for files written by bigtools)
    for c in by_id {
        for r in z.blocks.iter().flatten().filter(|r| r.chrom == c.id) {
            want.push((c.name.clone(), r.start, r.end, r.valid));
        }
    }
    let got: Vec<(String, u32, u32, u32)> = text
        .lines()
        .map(|l| {
            let f: Vec<&str> = l.split('\t').collect();
            (
                f.first().unwrap_or(&"").to_string(),
                f.get(1).and_then(|x| x.parse().ok()).unwrap_or(u32::MAX),
                f.get(2).and_then(|x| x.parse().ok()).unwrap_or(u32::MAX),
                f.get(4).and_then(|x| x.parse().ok()).unwrap_or(u32::MAX),
            )
        })
        .collect();
    if got != want {
        let k = got.iter().zip(&want).position(|(a, b)| a != b).unwrap_or(got.len().min(want.len()));
        return viol(
            "zoom-tool",
            format!(
                "bigbedtobed --zoom {} lists {} records, the level stores {}; first difference at {}: {:?} vs {:?}",
                z.reduction,
                got.len(),
                want.len(),
                k,
                got.get(k),
                want.get(k)
            ),
        );
    }
    Verdict::Pass
}

//! Static descriptions that go into the evidence file next to the measured numbers.

pub struct Spec {
    pub rule: String,
    pub real: Vec<&'static str>,
    pub stub: Vec<&'static str>,
    pub assumptions: Vec<&'static str>,
}

const PIPE_REAL: &[&str] = &[
    "bigtools write pipeline (bbiwrite.rs, bigwigwrite.rs, bigbedwrite.rs, beddata.rs, tempfilebuffer.rs)",
    "bigtools readers (bbiread.rs, bigwigread.rs, bigbedread.rs)",
    "tokio current_thread runtime, futures mpsc, crossbeam channels, AtomicCell, Mutex/Condvar",
    "libdeflater (compression), temp files on the real file system",
];
const PIPE_STUB: &[&str] = &[
    "destination: SimSink (in-memory Write+Seek with op log, F1/F2/F5; in a twelfth of the content-check cases it delivers only what was flushed)",
    "file being read: SimRead (Read+Seek+Reopen with F3/F4)",
    "data source in a share of the runs: SimSource (own BBIDataSource, 1-5 chromosomes in flight)",
];
const READ_REAL: &[&str] = &[
    "bigtools readers (bbiread.rs incl. CachedBBIFileRead, bigwigread.rs, bigbedread.rs, reopen.rs), libdeflater inflate",
    "for files written by bigtools: the real write pipeline (calm schedule)",
];
const READ_STUB: &[&str] = &[
    "file being read: SimRead (Read+Seek+Reopen over shared bytes, seeded short reads and EINTR; in a quarter of the histories one hard read/seek error inside one operation, F10)",
    "C10 only: files come from the independent encoder (sim/src/encode.rs), not from bigtools",
];
const COMMON_ASSUME: &[&str] = &[
    "a clean batch is evidence bounded by the generator's sizes, not a proof",
    "one VERIF_SEED and a run index determine a case completely (determinism self-test: sim determinism <prop>)",
];

pub fn spec(prop: &str) -> Spec {
    let pipe_rule = "cases drawn by the seeded swarm generator (workload x options x source kind x pass mode x schedule policy x I/O fault rates) from VERIF_SEED and the run index; distinct = distinct hash of the complete case description (workload, options, schedule plan, fault plan); non-trivial = the write produced at least 2 data sections and the property's oracle was actually evaluated (accepted input, verdict pass)";
    let mut assumptions = COMMON_ASSUME.to_vec();
    match prop {
        "C03" | "C04" | "C05" | "C10" => {
            assumptions.push("the independent decoder/encoder pair implements the published format correctly (they cross-check each other)");
            Spec {
                rule: match prop {
                    "C05" => "stratified seeded search over tree shapes: run index mod 16 selects a target (levels 1-4 x last node full/partial/single, then free sampling of 1-700 blocks, fan-out 2-9, 1-3 chromosomes); every case = one written file + independent tree walk + boundary sweep; distinct = distinct hash of the case; non-trivial = at least 2 blocks. classes_reached lists the (levels, last-node fill per level) classes observed in the decoded trees".to_string(),
                    "C10" => "seeded encoder specifications (byte order x zlib/raw x version 1-4 x section types 1/2/3 x chromosome-tree fan-out x R-tree fan-out x node placement x zoom levels) with a seeded query history each; distinct = distinct hash of (specification, history, read-fault plan); non-trivial = at least 2 data blocks; classes_reached lists the layout classes".to_string(),
                    _ => "seeded files (calm bigtools write) with a seeded history of 4-40 operations (interval, partial iteration, move+into, per-base values, zoom, reopen, summary) run through the plain and the caching reader on SimRead; an operation inside which the injected hard error fired may fail, none may answer wrongly, later ones must be right; distinct = distinct hash of (file, history, read-fault plan, reader flavour); non-trivial = at least 2 blocks and 2 operations".to_string(),
                },
                real: READ_REAL.to_vec(),
                stub: READ_STUB.to_vec(),
                assumptions,
            }
        }
        "C12" => Spec {
            rule: "39 of 40 cases: one seeded producer program (0-8 writes of boundary-biased sizes, optional flushes, drop) interleaved call by call with one of four legal consumer programs by a seeded chooser, in-memory or temp-file staging, destination with short writes/EINTR; 1 of 40 cases: a batch of 3 000 (quick) / 20 000 (thorough) shuttle schedules (random or PCT, seeded) of a producer thread and a consumer thread over the same source compiled against shuttle's Mutex/Condvar. distinct = distinct case hash; non-trivial = at least one write (interleaving cases) / every shuttle batch; classes_reached = where the redirect landed relative to the byte stream; probes = which staging state each hand-over found".to_string(),
            real: vec![
                "bigtools/src/utils/file/tempfilebuffer.rs (interleaving simulator: real std Mutex/Condvar and crossbeam AtomicCell; shuttle: the same source file via #[path])",
                "temp files on the real file system",
            ],
            stub: vec![
                "destination: SimSink / in-memory Dest with bounded write size",
                "shuttle mode: Mutex, Condvar from shuttle; AtomicCell modelled by a shuttle mutex (linearizable swap with a scheduling point)",
            ],
            assumptions,
        },
        "C15" | "C16" | "C17" => Spec {
            rule: "seeded cases; the tools are called in-process through their public entry functions with clap-parsed argument vectors (C16: a tenth through the built multicall binary, a tenth with the input text on standard input); distinct = distinct hash of the case (inputs, flags, schedule plan); non-trivial = at least 2 input records/regions".to_string(),
            real: vec![
                "bigtools::utils::cli::{bedgraphtobigwig, bedtobigbed, bigwigtobedgraph, bigbedtobed, bigwigmerge, bigwigaverageoverbed, bigwigvaluesoverbed} entry functions, compat_args, clap argument structs",
                "bigtools::utils::{merge, fill, misc}",
                "the write pipeline and readers underneath, real files in a scratch directory",
            ],
            stub: vec![
                "multi-thread tokio runtimes are replaced by the simulator's current_thread runtime through the cfg-gated override (C16, C11 converters); -t 1 runs natively",
                "C17 -t N: the tool's own std::thread pool runs for real (uncontrolled, counted separately)",
                "C17 library mode: SimRead with short reads/EINTR and (a third) one hard read error, F10",
                "C15 (a fifth of the bigWig-output cases) and C16 (a tenth of the cases): the tool's pipeline composed from its public pieces over SimRead inputs with one hard read error, F10",
            ],
            assumptions,
        },
        "C18" => Spec {
            rule: "half of the cases: a FileView over a seeded window of a seeded scratch file (half of them on a handle that earlier reads/seeks left at some offset) driven through a seeded history of 1-14 read/seek operations against a clamped-cursor model; the rest: seeded grouped / non-grouped files (run lengths x line-length patterns incl. 200-3000 byte lines and multi-byte text x final newline) for index_chroms and for split_file_into_chunks_by_size with every chunk count 1..lines+2. distinct = distinct case hash; non-trivial = at least 2 operations / 2 lines. index and chunking are pure functions of the file (no schedule or fault dimension) and are counted separately; every 50th case is the statement's last clause on the whole pipeline: one input through the serial text source and through the indexed per-chromosome-view parallel source must give the same bytes".to_string(),
            real: vec!["bigtools::utils::file_view::FileView, bigtools::bed::indexer::index_chroms, bigtools::utils::split_file_into_chunks_by_size on real scratch files"],
            stub: vec!["none"],
            assumptions,
        },
        "C19" => Spec {
            rule: "two thirds of the cases: batches of parser inputs (a generated schema with all its token-boundary truncations; 30 single-token mutations; the 41 schemas bed_autosql emits; blocks of 300 strings of the enumeration of all strings up to length 6 over the delimiter alphabet, with schema prefixes) parsed inside a worker process with a 1 GiB address-space cap and a stall watchdog; one third: bedtobigbed with 0-40 extra columns, with or without a generated (1-6 declaration) schema, in-process or (a tenth) through the built binary with the BED piped in on standard input (`-`, `stdin`, `/dev/stdin`). distinct = distinct case hash; non-trivial = a batch of at least 2 inputs / a conversion".to_string(),
            real: vec![
                "bigtools::bed::autosql::{parse::parse_autosql, bed_autosql}",
                "bigtools::utils::cli::bedtobigbed, BigBedRead::autosql / header.field_count",
            ],
            stub: vec!["process resources: RLIMIT_AS cap and stall watchdog of the worker process (F9)"],
            assumptions,
        },
        "C14" => Spec {
            rule: "outer loop: seeded small workloads (<= 3 chromosomes, <= 40 items each, half under a seeded schedule, a third with short writes, a sixth with a refused input); inner loops exhaustive: every crash point k of the recorded sink operation log and every (write|seek|flush, k, one-shot|sticky) failing operation. evaluations = workloads; coverage.counters.sub_evaluations = crash images + failing-sink runs actually executed; distinct = distinct workload hash; non-trivial = at least one data section".to_string(),
            real: PIPE_REAL.to_vec(),
            stub: PIPE_STUB.to_vec(),
            assumptions,
        },
        "C11" => Spec {
            rule: "4 of 5 cases: one workload + format options written once as reference (serial source, in-memory, calm) and 3-7 variants (source kind, channel size, buffering, schedule policy+seed, sink short writes/EINTR, 1 in 12 on a real multi-thread runtime), all images compared byte for byte; 1 of 5 cases: a written file converted by write_bg/write_bed on the simulator's runtime (-t 2..16) under a seeded schedule and compared with the single-threaded text (a fifth of these through SimRead with one hard read error, F10: the conversion may fail, a reported success must give the same text). distinct = distinct case hash; non-trivial = at least 2 chromosomes and 2 sections".to_string(),
            real: PIPE_REAL.to_vec(),
            stub: PIPE_STUB.to_vec(),
            assumptions,
        },
        "C13" => Spec {
            rule: "7 of 10 cases: a valid multi-chromosome workload with one bad record (out of order, overlap, start>end, beyond chromosome, unknown chromosome, chromosome order, malformed line, empty input, source error item, read error mid-text) planted at a first/middle/last position; 2 of 10: only zero-length items; 1 of 10 plain valid. distinct = distinct case hash; non-trivial = a planted bad record in an input of at least 2 records".to_string(),
            real: PIPE_REAL.to_vec(),
            stub: PIPE_STUB.to_vec(),
            assumptions,
        },
        _ => {
            assumptions.push("the independent decoder (sim/src/decode.rs) implements the published format correctly");
            Spec {
                rule: pipe_rule.to_string(),
                real: PIPE_REAL.to_vec(),
                stub: PIPE_STUB.to_vec(),
                assumptions,
            }
        }
    }
}

//! Static descriptions that go into the evidence file next to the measured numbers.

pub struct Spec {
    pub rule: String,
    pub real: Vec<&'static str>,
    pub stub: Vec<&'static str>,
    pub assumptions: Vec<&'static str>,
}

const PIPE_REAL: &[&str] = &[
    "bigtools write pipeline (bbiwrite.rs, bigwigwrite.rs, bigbedwrite.rs, beddata.rs, tempfilebuffer.rs)",
    "bigtools readers (bbiread.rs, bigwigread.rs, bigbedread.rs)",
    "tokio current_thread runtime, futures mpsc, crossbeam channels, AtomicCell, Mutex/Condvar",
    "libdeflater (compression), temp files on the real file system",
];
const PIPE_STUB: &[&str] = &[
    "destination: SimSink (in-memory Write+Seek with op log, F1/F2/F5)",
    "file being read: SimRead (Read+Seek+Reopen with F3/F4)",
    "data source in a share of the runs: SimSource (own BBIDataSource, 1-5 chromosomes in flight)",
];

pub fn spec(prop: &str) -> Spec {
    let pipe_rule = "cases drawn by the seeded swarm generator (workload x options x source kind x pass mode x schedule policy x I/O fault rates) from VERIF_SEED and the run index; distinct = distinct hash of the complete case description (workload, options, schedule plan, fault plan); non-trivial = the write produced at least 2 data sections and the property's oracle was actually evaluated (accepted input, verdict pass)";
    match prop {
        _ => Spec {
            rule: pipe_rule.to_string(),
            real: PIPE_REAL.to_vec(),
            stub: PIPE_STUB.to_vec(),
            assumptions: vec![
                "a clean batch is evidence bounded by the generator's sizes, not a proof",
                "the tokio current_thread scheduler is deterministic given the yield decisions (checked by the determinism self-test)",
                "the independent decoder (sim/src/decode.rs) implements the published format correctly",
            ],
        },
    }
}

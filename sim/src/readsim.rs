//! readsim: one reader instance living through a seeded history of queries on `SimRead`
//! (short reads / EINTR), plain, cached and reopened. C03, C04, C05 (files written by bigtools)
//! and C10 (files produced by the independent encoder).

use std::sync::Arc;

use serde::{Deserialize, Serialize};

use bigtools::utils::reopen::Reopen;
use bigtools::{BBIFileRead, BigBedRead, BigWigRead};

use crate::checks::{viol, Verdict};
use crate::decode;
use crate::gen::{self, Profile};
use crate::model::*;
use crate::oracle::*;
use crate::pipesim::{self, panic_message, WriteResult};
use crate::report::{RunReport, RunStats};
use crate::rng::Rng;
use crate::sink::SimRead;

#[derive(Clone, Debug, PartialEq, Serialize, Deserialize)]
pub enum ROp {
    Interval { c: usize, s: u32, e: u32 },
    /// consume only `take` records, then drop the iterator
    Partial { c: usize, s: u32, e: u32, take: usize },
    /// get_interval_move + into()
    Move { c: usize, s: u32, e: u32 },
    Values { c: usize, s: u32, e: u32 },
    Zoom { c: usize, s: u32, e: u32, level: usize },
    Reopen,
    Summary,
}

#[derive(Clone, Debug, PartialEq, Serialize, Deserialize)]
pub struct ReadCase {
    /// the file is produced by a calm, fault-free write of this case
    pub file: PipeCase,
    pub ops: Vec<ROp>,
    pub read: ReadFaults,
    pub cached: bool,
    /// C05: additionally sweep every block boundary +-1
    #[serde(default)]
    pub sweep: bool,
}

/// What the file is known to contain (model), independent of how it was produced.
pub struct FileModel {
    pub kind: Kind,
    pub chroms: Vec<Chrom>,
    /// zoom levels: (reduction, per chromosome name the records)
    pub zooms: Vec<(u32, Vec<(String, Vec<decode::DZoomRec>)>)>,
    pub summary: Option<(u64, f64, f64, f64, f64)>,
}

fn boundaries(c: &Chrom, ips: u32) -> Vec<u32> {
    let mut b = vec![0, c.len];
    for (k, it) in c.items.iter().enumerate() {
        if k % (ips.max(1) as usize) == 0 || k + 1 == c.items.len() || k % 7 == 0 {
            b.push(it.s);
            b.push(it.e);
        }
    }
    b
}

fn pick_range(rng: &mut Rng, c: &Chrom, ips: u32, allow_empty: bool) -> (u32, u32) {
    let bs = boundaries(c, ips);
    let mut pt = |rng: &mut Rng| -> u32 {
        let base = match rng.below(10) {
            0 => 0,
            1 => c.len,
            2 => rng.below(c.len as u64 + 1) as u32,
            _ => *rng.pick(&bs),
        } as i64;
        let d = match rng.below(6) {
            0 => -1,
            1 => 1,
            2 => -2,
            _ => 0,
        };
        (base + d).max(0).min(c.len as i64) as u32
    };
    let (a, b) = (pt(rng), pt(rng));
    let (mut s, mut e) = (a.min(b), a.max(b));
    if rng.chance(1, 12) && !c.items.is_empty() {
        // inside a single item
        let it = rng.pick(&c.items);
        if it.e > it.s + 1 {
            s = it.s + rng.below((it.e - it.s) as u64) as u32;
            e = s + rng.below((it.e - s) as u64 + 1) as u32;
        }
    }
    if s == e && !allow_empty {
        if e < c.len {
            e += 1;
        } else if s > 0 {
            s -= 1;
        }
    }
    (s.min(c.len), e.min(c.len))
}

pub fn gen_ops(rng: &mut Rng, file: &PipeCase, n: usize, nzoom_hint: usize) -> Vec<ROp> {
    let mut ops = vec![];
    let wig = file.kind == Kind::Wig;
    for _ in 0..n {
        let c = rng.below(file.chroms.len() as u64) as usize;
        let ch = &file.chroms[c];
        let (s, e) = pick_range(rng, ch, file.opts.items_per_slot, wig);
        let op = match rng.below(20) {
            0..=7 => ROp::Interval { c, s, e },
            8..=9 => ROp::Partial {
                c,
                s,
                e,
                take: rng.below(4) as usize,
            },
            10..=11 => ROp::Move { c, s, e },
            12..=14 if wig => {
                // keep per-base arrays small
                let e2 = e.min(s.saturating_add(5000));
                ROp::Values { c, s, e: e2 }
            }
            15..=16 if nzoom_hint > 0 => ROp::Zoom {
                c,
                s,
                e,
                level: rng.below(nzoom_hint as u64) as usize,
            },
            17 => ROp::Reopen,
            18 => ROp::Summary,
            _ => ROp::Interval { c, s, e },
        };
        ops.push(op);
    }
    ops
}

pub fn gen_read_case(rng: &mut Rng, prop: &str) -> ReadCase {
    let mut p = Profile::default();
    p.io_chaos = false;
    p.sched_chaos = false;
    p.all_sources = false;
    p.zero_len_pm = 0;
    p.bed_zero_zero_pm = 0;
    p.huge = true;
    let mut big = false;
    match prop {
        "C03" => p.kind = Some(Kind::Wig),
        "C04" => {
            p.kind = Some(Kind::Bed);
            p.long_first = rng.chance(2, 3);
        }
        _ => {}
    }
    if prop == "C03" || prop == "C04" {
        big = rng.chance(1, 60);
    }
    let mut file = gen::gen_pipe_case(rng, &p);
    file.sched = Sched::Calm;
    file.sink = SinkFaults::default();
    file.read = ReadFaults::default();
    file.source = Source::SerialIter;
    if prop == "C04" {
        // small slots/fan-out so that blocks with a long first entry sit at every tree level
        file.opts.items_per_slot = *rng.pick(&[1u32, 2, 3, 4, 7, 64]);
        file.opts.block_size = *rng.pick(&[2u32, 3, 4, 5, 16]);
    }
    if big {
        // one chromosome with 5200 one-item blocks: the block cache crosses its 5000-entry reset
        file.opts.items_per_slot = 1;
        file.opts.block_size = *rng.pick(&[16u32, 256]);
        file.opts.manual_zooms = Some(vec![]);
        file.multipass = false;
        let mut items = vec![];
        let mut pos = 0u32;
        for k in 0..5200u32 {
            let len = 1 + rng.below(4) as u32;
            let gap = rng.below(3) as u32;
            pos += gap;
            items.push(match file.kind {
                Kind::Wig => Item::wig(pos, pos + len, (k % 97) as f32),
                Kind::Bed => Item::bed(pos, pos + len, if k % 5 == 0 { "x" } else { "" }),
            });
            pos += if file.kind == Kind::Bed && k % 3 == 0 { 0 } else { len };
        }
        let end = items.iter().map(|i| i.e).max().unwrap();
        file.chroms.truncate(1);
        file.chroms[0].items = items;
        file.chroms[0].len = end + 10;
    }
    let nops = if big { 12 } else { rng.range(4, 40) as usize };
    let nz = match &file.opts.manual_zooms {
        Some(v) => v.iter().filter(|z| **z > 0).count(),
        None => 2,
    };
    let mut ops = gen_ops(rng, &file, nops, nz);
    if big {
        // full sweep first (fills and resets the cache), then queries that hit evicted and cached blocks
        let len = file.chroms[0].len;
        ops.insert(0, ROp::Interval { c: 0, s: 0, e: len });
        ops.insert(1, ROp::Interval { c: 0, s: 0, e: 50 });
        ops.insert(2, ROp::Interval { c: 0, s: len / 2, e: len });
    }
    let chaos = rng.chance(1, 2);
    let mut rc = ReadCase {
        file,
        ops,
        read: if chaos {
            ReadFaults {
                short_pm: *rng.pick(&[100u16, 500, 900]),
                eintr_pm: *rng.pick(&[0u16, 100, 400]),
                seed: rng.next_u64(),
                hard: None,
                hard_kind: 0,
            }
        } else {
            ReadFaults::default()
        },
        cached: rng.chance(1, 2),
        sweep: false,
    };
    // F10: one hard read/seek error inside one operation of the history (1 case in 4)
    if rng.chance(1, 4) && !rc.ops.is_empty() {
        rc.read.hard = Some((rng.below(rc.ops.len() as u64) as u32, rng.below(10) as u32));
        rc.read.hard_kind = rng.below(4) as u8;
    }
    rc
}

fn bits_eq(a: &[f32], b: &[f32]) -> bool {
    a.len() == b.len()
        && a.iter().zip(b).all(|(x, y)| x.to_bits() == y.to_bits() || (x.is_nan() && y.is_nan()))
}

/// Compares a bigWig interval answer with the model. Empty ranges: the statement does not say whether a value
/// strictly containing the point overlaps an empty range, so both answers are accepted there.
fn wig_answer_ok(got: &[Item], items: &[Item], s: u32, e: u32) -> Result<(), String> {
    let want = expect_interval(items, s, e);
    let eq = |a: &[Item], b: &[Item]| a.len() == b.len() && a.iter().zip(b).all(|(x, y)| x.s == y.s && x.e == y.e && x.vb == y.vb);
    if eq(got, &want) {
        return Ok(());
    }
    if s == e && got.is_empty() {
        return Ok(());
    }
    Err(format!(
        "[{}, {}): got {:?}, expected {:?}",
        s,
        e,
        got.iter().take(6).map(|i| (i.s, i.e, i.v())).collect::<Vec<_>>(),
        want.iter().take(6).map(|i| (i.s, i.e, i.v())).collect::<Vec<_>>()
    ))
}

fn bed_answer_ok(got: &[Item], items: &[Item], s: u32, e: u32) -> Result<(), String> {
    // every strictly overlapping entry once, in stored order; nothing wholly outside [s,e]; touching optional
    let mut gi = 0usize;
    for it in items {
        let present = gi < got.len() && got[gi] == *it;
        if present {
            if !bed_may(it, s, e) {
                return Err(format!(
                    "[{}, {}): returned entry [{}, {}) which lies wholly outside the range",
                    s, e, it.s, it.e
                ));
            }
            gi += 1;
        } else if bed_must(it, s, e) {
            return Err(format!(
                "[{}, {}): overlapping entry [{}, {}) {:?} missing (or out of order); {} entries returned",
                s,
                e,
                it.s,
                it.e,
                it.rest,
                got.len()
            ));
        }
    }
    if gi != got.len() {
        return Err(format!(
            "[{}, {}): {} returned entries are duplicates, out of stored order or not in the file (first: {:?})",
            s,
            e,
            got.len() - gi,
            got.get(gi)
        ));
    }
    Ok(())
}

fn zoom_answer_ok(got: &[bigtools::ZoomRecord], recs: &[decode::DZoomRec], s: u32, e: u32) -> Result<(), String> {
    let mut gi = 0usize;
    for r in recs {
        let present = gi < got.len() && got[gi].start == r.start && got[gi].end == r.end;
        let must = r.end > s && r.start < e && e > s;
        let may = r.end >= s && r.start <= e;
        if present {
            if !may {
                return Err(format!("[{}, {}): returned record [{}, {}) outside the range", s, e, r.start, r.end));
            }
            let g = &got[gi];
            if g.summary.bases_covered != r.valid as u64
                || (g.summary.min_val as f32).to_bits() != r.min.to_bits()
                || (g.summary.max_val as f32).to_bits() != r.max.to_bits()
                || (g.summary.sum as f32).to_bits() != r.sum.to_bits()
                || (g.summary.sum_squares as f32).to_bits() != r.sumsq.to_bits()
            {
                return Err(format!("[{}, {}): record [{}, {}) returned with different statistics", s, e, r.start, r.end));
            }
            gi += 1;
        } else if must {
            return Err(format!("[{}, {}): record [{}, {}) missing", s, e, r.start, r.end));
        }
    }
    if gi != got.len() {
        return Err(format!("[{}, {}): {} unexpected records returned", s, e, got.len() - gi));
    }
    Ok(())
}

pub struct HistStats {
    pub ops: u64,
    pub reopens: u64,
    pub blocks_hint: u64,
    /// F10: shared I/O statistics of the SimRead under the reader, and (operation index, n-th call) to arm
    pub io: Option<Arc<std::sync::Mutex<crate::sink::ReadStats>>>,
    pub arm: Option<(u32, u32)>,
    /// operations that failed while the injected hard error fired inside them (accepted)
    pub tolerated: u64,
}

impl HistStats {
    fn hard_errors(&self) -> u64 {
        match &self.io {
            Some(io) => io.lock().unwrap_or_else(|e| e.into_inner()).hard_errors,
            None => 0,
        }
    }
    fn arm_if_due(&self, k: usize) {
        if let (Some(io), Some((at, nth))) = (&self.io, self.arm) {
            if at as usize == k {
                io.lock().unwrap_or_else(|e| e.into_inner()).arm = Some(nth as u64);
            }
        }
    }
    /// An operation returned an I/O error: accepted (and counted) iff the injected hard error fired inside it.
    fn tolerate(&mut self, before: u64) -> bool {
        if self.hard_errors() > before {
            self.tolerated += 1;
            true
        } else {
            false
        }
    }
}

macro_rules! history_runner {
    ($fname:ident, $Reader:ident, $conv:expr, $is_wig:expr) => {
        /// Runs the history against one reader instance; after every operation the answer must equal the model.
        pub fn $fname<R: BBIFileRead + Reopen>(
            mut reader: $Reader<R>,
            model: &FileModel,
            ops: &[ROp],
            hs: &mut HistStats,
        ) -> Result<(), (String, String)> {
            let conv = $conv;
            let mut slot: Option<$Reader<R>> = None;
            'ops: for (k, op) in ops.iter().enumerate() {
                hs.ops += 1;
                hs.arm_if_due(k);
                let hard_before = hs.hard_errors();
                let fail = |class: &str, msg: String| Err((class.to_string(), format!("op {} {:?}: {}", k, op, msg)));
                match op {
                    ROp::Interval { c, s, e } | ROp::Partial { c, s, e, .. } | ROp::Move { c, s, e } => {
                        let ch = &model.chroms[*c];
                        let take = match op {
                            ROp::Partial { take, .. } => Some(*take),
                            _ => None,
                        };
                        let got: Vec<Item> = if matches!(op, ROp::Move { .. }) {
                            let r = std::mem::replace(&mut slot, None).unwrap_or(reader);
                            let mut it = match r.get_interval_move(&ch.name, *s, *e) {
                                Ok(i) => i,
                                Err(e) => {
                                    // the reader went into the call and is gone with the error
                                    if hs.tolerate(hard_before) {
                                        return Ok(());
                                    }
                                    return fail("read-error", format!("{}", e));
                                }
                            };
                            let mut v = vec![];
                            let mut broken = false;
                            for x in it.by_ref() {
                                match x {
                                    Ok(x) => v.push(conv(x)),
                                    Err(e) => {
                                        if hs.tolerate(hard_before) {
                                            broken = true;
                                            break;
                                        }
                                        return fail("read-error", format!("{}", e));
                                    }
                                }
                            }
                            if broken {
                                reader = it.into();
                                continue 'ops;
                            }
                            reader = it.into();
                            v
                        } else {
                            if let Some(r) = slot.take() {
                                reader = r;
                            }
                            let it = match reader.get_interval(&ch.name, *s, *e) {
                                Ok(i) => i,
                                Err(e) => {
                                    if hs.tolerate(hard_before) {
                                        continue 'ops;
                                    }
                                    return fail("read-error", format!("{}", e));
                                }
                            };
                            let mut v = vec![];
                            for x in it {
                                if let Some(t) = take {
                                    if v.len() >= t {
                                        break;
                                    }
                                }
                                match x {
                                    Ok(x) => v.push(conv(x)),
                                    Err(e) => {
                                        if hs.tolerate(hard_before) {
                                            continue 'ops;
                                        }
                                        return fail("read-error", format!("{}", e));
                                    }
                                }
                            }
                            v
                        };
                        let res = if $is_wig {
                            match take {
                                Some(t) => {
                                    let mut want = expect_interval(&ch.items, *s, *e);
                                    want.truncate(t);
                                    if got == want || (*s == *e && got.is_empty()) {
                                        Ok(())
                                    } else {
                                        Err(format!("first {} of [{}, {}): got {:?} expected {:?}", t, s, e, got, want))
                                    }
                                }
                                None => wig_answer_ok(&got, &ch.items, *s, *e),
                            }
                        } else {
                            match take {
                                // a prefix of a legal answer: every returned entry must be allowed and in stored order
                                Some(_) => {
                                    let mut gi = 0;
                                    for it in &ch.items {
                                        if gi < got.len() && got[gi] == *it {
                                            if !bed_may(it, *s, *e) {
                                                gi = usize::MAX;
                                                break;
                                            }
                                            gi += 1;
                                        } else if gi < got.len() && bed_must(it, *s, *e) {
                                            gi = usize::MAX;
                                            break;
                                        }
                                    }
                                    if gi == got.len() {
                                        Ok(())
                                    } else {
                                        Err(format!("partial answer for [{}, {}) is not a prefix of a legal answer: {:?}", s, e, got))
                                    }
                                }
                                None => bed_answer_ok(&got, &ch.items, *s, *e),
                            }
                        };
                        if let Err(m) = res {
                            return fail("wrong-answer", format!("{} {}", ch.name, m));
                        }
                    }
                    ROp::Values { c, s, e } => {
                        if let Some(r) = slot.take() {
                            reader = r;
                        }
                        let ch = &model.chroms[*c];
                        if let Err((io, m)) = values_check(&mut reader, ch, *s, *e) {
                            if io {
                                if hs.tolerate(hard_before) {
                                    continue 'ops;
                                }
                                return fail("read-error", m);
                            }
                            return fail("wrong-answer", m);
                        }
                    }
                    ROp::Zoom { c, s, e, level } => {
                        if let Some(r) = slot.take() {
                            reader = r;
                        }
                        if model.zooms.is_empty() {
                            continue;
                        }
                        let ch = &model.chroms[*c];
                        let (red, per_chrom) = &model.zooms[*level % model.zooms.len()];
                        let recs: &[decode::DZoomRec] = per_chrom
                            .iter()
                            .find(|(n, _)| *n == ch.name)
                            .map(|(_, r)| r.as_slice())
                            .unwrap_or(&[]);
                        let got: Result<Vec<bigtools::ZoomRecord>, String> =
                            match reader.get_zoom_interval(&ch.name, *s, *e, *red) {
                                Ok(i) => i.collect::<Result<Vec<_>, _>>().map_err(|e| format!("{}", e)),
                                Err(e) => Err(format!("{}", e)),
                            };
                        match got {
                            Ok(g) => {
                                if let Err(m) = zoom_answer_ok(&g, recs, *s, *e) {
                                    return fail("wrong-answer", format!("zoom {} {} {}", red, ch.name, m));
                                }
                            }
                            Err(e) => {
                                if hs.tolerate(hard_before) {
                                    continue 'ops;
                                }
                                return fail("read-error", format!("zoom {}: {}", red, e));
                            }
                        }
                    }
                    ROp::Reopen => {
                        if let Some(r) = slot.take() {
                            reader = r;
                        }
                        hs.reopens += 1;
                        match reader.reopen() {
                            Ok(r) => {
                                // the original stays alive (independent cursor); continue on the reopened one
                                slot = Some(r);
                            }
                            Err(e) => {
                                if hs.tolerate(hard_before) {
                                    continue 'ops;
                                }
                                return fail("read-error", format!("reopen: {}", e));
                            }
                        }
                    }
                    ROp::Summary => {
                        if let Some(r) = slot.take() {
                            reader = r;
                        }
                        if let Some(want) = model.summary {
                            match reader.get_summary() {
                                Ok(sm) => {
                                    if sm.bases_covered != want.0
                                        || sm.min_val.to_bits() != want.1.to_bits()
                                        || sm.max_val.to_bits() != want.2.to_bits()
                                        || sm.sum.to_bits() != want.3.to_bits()
                                        || sm.sum_squares.to_bits() != want.4.to_bits()
                                    {
                                        return fail("wrong-answer", format!("summary {:?} expected {:?}", sm, want));
                                    }
                                }
                                Err(e) => {
                                    if hs.tolerate(hard_before) {
                                        continue 'ops;
                                    }
                                    return fail("read-error", format!("summary: {}", e));
                                }
                            }
                        }
                    }
                }
            }
            Ok(())
        }
    };
}

trait ValuesCheck {
    /// Err((true, _)) = the call returned an error, Err((false, _)) = it returned a wrong answer
    fn values_check_impl(&mut self, ch: &Chrom, s: u32, e: u32) -> Result<(), (bool, String)>;
}
impl<R: BBIFileRead> ValuesCheck for BigWigRead<R> {
    fn values_check_impl(&mut self, ch: &Chrom, s: u32, e: u32) -> Result<(), (bool, String)> {
        match self.values(&ch.name, s, e) {
            Ok(v) => {
                let want = expect_values(&ch.items, s, e);
                if bits_eq(&v, &want) {
                    Ok(())
                } else {
                    let k = v.iter().zip(&want).position(|(a, b)| a.to_bits() != b.to_bits() && !(a.is_nan() && b.is_nan()));
                    Err((
                        false,
                        format!(
                            "values({}, {}, {}): {} values, expected {}; first difference at index {:?}",
                            ch.name,
                            s,
                            e,
                            v.len(),
                            want.len(),
                            k
                        ),
                    ))
                }
            }
            Err(e) => Err((true, format!("values: {}", e))),
        }
    }
}
impl<R: BBIFileRead> ValuesCheck for BigBedRead<R> {
    fn values_check_impl(&mut self, _ch: &Chrom, _s: u32, _e: u32) -> Result<(), (bool, String)> {
        Ok(())
    }
}
fn values_check<T: ValuesCheck>(r: &mut T, ch: &Chrom, s: u32, e: u32) -> Result<(), (bool, String)> {
    r.values_check_impl(ch, s, e)
}

history_runner!(run_wig_history, BigWigRead, |x: bigtools::Value| Item::wig(x.start, x.end, x.value), true);
history_runner!(run_bed_history, BigBedRead, |x: bigtools::BedEntry| Item::bed(x.start, x.end, &x.rest), false);

/// Builds the model of a file written by bigtools: records from the input, zoom records and summary as stored
/// (their correctness is C06-C08's business; here only that queries return what is stored).
pub fn model_of_written(file: &PipeCase, image: &[u8]) -> Result<FileModel, String> {
    let dec = decode::decode(image)?;
    let mut zooms = vec![];
    for z in &dec.zooms {
        let mut per = vec![];
        for c in &file.chroms {
            if let Some(dc) = dec.chrom_by_name(&c.name) {
                let recs: Vec<decode::DZoomRec> = z.blocks.iter().flatten().filter(|r| r.chrom == dc.id).cloned().collect();
                per.push((c.name.clone(), recs));
            }
        }
        zooms.push((z.reduction, per));
    }
    Ok(FileModel {
        kind: file.kind,
        chroms: file.chroms.clone(),
        zooms,
        summary: dec.summary,
    })
}

pub fn run_history_on(
    image: Arc<Vec<u8>>,
    model: &FileModel,
    ops: &[ROp],
    read: &ReadFaults,
    cached: bool,
    st: &mut RunStats,
) -> Verdict {
    let rd = SimRead::new(image, read);
    let stats = rd.stats.clone();
    let mut hs = HistStats {
        ops: 0,
        reopens: 0,
        blocks_hint: 0,
        io: Some(stats.clone()),
        arm: read.hard,
        tolerated: 0,
    };
    let res = std::panic::catch_unwind(std::panic::AssertUnwindSafe(|| -> Result<(), (String, String)> {
        match model.kind {
            Kind::Wig => {
                let r = BigWigRead::open(rd).map_err(|e| ("open-failed".to_string(), format!("{}", e)))?;
                if cached {
                    run_wig_history(r.cached(), model, ops, &mut hs)
                } else {
                    run_wig_history(r, model, ops, &mut hs)
                }
            }
            Kind::Bed => {
                let r = BigBedRead::open(rd).map_err(|e| ("open-failed".to_string(), format!("{}", e)))?;
                if cached {
                    run_bed_history(r.cached(), model, ops, &mut hs)
                } else {
                    run_bed_history(r, model, ops, &mut hs)
                }
            }
        }
    }));
    {
        let s = stats.lock().unwrap_or_else(|e| e.into_inner());
        if s.short_reads > 0 {
            *st.faults.entry("F3_short_read".into()).or_insert(0) += s.short_reads;
        }
        if s.eintr_reads > 0 {
            *st.faults.entry("F4_eintr_read".into()).or_insert(0) += s.eintr_reads;
        }
        if s.hard_errors > 0 {
            *st.faults.entry("F10_hard_read_error".into()).or_insert(0) += s.hard_errors;
        }
        *st.counters.entry("reader_read_calls".into()).or_insert(0) += s.reads;
        *st.counters.entry("reader_seek_calls".into()).or_insert(0) += s.seeks;
    }
    *st.counters.entry("history_ops".into()).or_insert(0) += hs.ops;
    *st.counters.entry("reopens".into()).or_insert(0) += hs.reopens;
    if hs.tolerated > 0 {
        *st.counters.entry("ops_failed_under_injected_read_error".into()).or_insert(0) += hs.tolerated;
    }
    *st.counters
        .entry(if cached { "cached_reader_runs".into() } else { "plain_reader_runs".into() })
        .or_insert(0) += 1;
    match res {
        Ok(Ok(())) => Verdict::Pass,
        Ok(Err((class, detail))) => viol(&class, detail),
        Err(p) => viol("reader-panic", panic_message(p)),
    }
}

pub fn run_read_case(rc: &ReadCase) -> RunReport {
    let mut st = RunStats::default();
    let out = pipesim::run_write(&rc.file, false);
    if out.result != WriteResult::Ok {
        return RunReport {
            verdict: Verdict::Skip(format!("file could not be produced: {:?}", out.result)),
            nontrivial: false,
            stats: st,
        };
    }
    let model = match model_of_written(&rc.file, &out.image) {
        Ok(m) => m,
        Err(e) => {
            return RunReport {
                verdict: Verdict::Skip(format!("file not decodable: {}", e)),
                nontrivial: false,
                stats: st,
            }
        }
    };
    let image = Arc::new(out.image);
    let mut ops = rc.ops.clone();
    if rc.sweep {
        ops.extend(sweep_ops(&rc.file, &model));
    }
    let blocks = crate::props::sections_of(&rc.file);
    if blocks > 5000 && rc.cached {
        st.classes.push("block_cache_reset_crossed".into());
    }
    // the same history through the configured reader; and, to pin history independence, every op alone on a fresh reader
    let v = run_history_on(image.clone(), &model, &ops, &rc.read, rc.cached, &mut st);
    let verdict = match v {
        Verdict::Pass => {
            // cross-check: cached and plain agree with the model => they agree with each other; run the other flavour too
            run_history_on(image.clone(), &model, &ops, &rc.read, !rc.cached, &mut st)
        }
        v => v,
    };
    // bigBed, one file in 40: the first interval queries of the history also through `bigtools intersect` (built binary)
    let verdict = if verdict == Verdict::Pass && rc.file.kind == Kind::Bed && crate::rng::hash_bytes(&image) % 40 == 0 {
        intersect_check(rc, &image, &ops, &mut st)
    } else {
        verdict
    };
    st.steps = ops.len() as u64;
    st.trace_hash = crate::rng::hash_bytes(&serde_json::to_vec(&ops).unwrap());
    RunReport {
        verdict,
        nontrivial: blocks >= 2 && ops.len() >= 2,
        stats: st,
    }
}

fn intersect_check(rc: &ReadCase, image: &[u8], ops: &[ROp], st: &mut RunStats) -> Verdict {
    let bin = match std::env::var("VERIF_BIGTOOLS_BIN") {
        Ok(b) if std::path::Path::new(&b).exists() => b,
        _ => return Verdict::Pass,
    };
    let dir = match tempfile::tempdir() {
        Ok(d) => d,
        Err(e) => return Verdict::Skip(format!("HARNESS: tempdir: {}", e)),
    };
    let big = dir.path().join("in.bb");
    if std::fs::write(&big, image).is_err() {
        return Verdict::Skip("HARNESS: scratch write".into());
    }
    let mut done = 0;
    for op in ops {
        let (c, s, e) = match op {
            ROp::Interval { c, s, e } | ROp::Move { c, s, e } => (*c, *s, *e),
            _ => continue,
        };
        if s >= e {
            continue;
        }
        let ch = &rc.file.chroms[c];
        let q = dir.path().join(format!("q{}.bed", done));
        if std::fs::write(&q, format!("{}\t{}\t{}\n", ch.name, s, e)).is_err() {
            return Verdict::Skip("HARNESS: scratch write".into());
        }
        let mut cmd = std::process::Command::new(&bin);
        cmd.arg("intersect").arg(&q).arg(&big);
        let out = match pipesim::output_with_deadline(cmd, 60) {
            Ok(o) => o,
            Err(e) if e.kind() == std::io::ErrorKind::TimedOut => return viol("intersect-tool", format!("bigtools intersect: {}", e)),
            Err(e) => return Verdict::Skip(format!("HARNESS: cannot run {}: {}", bin, e)),
        };
        if !out.status.success() {
            return viol("intersect-tool", format!("exit {:?}: {}", out.status.code(), String::from_utf8_lossy(&out.stderr).chars().take(200).collect::<String>()));
        }
        let text = String::from_utf8_lossy(&out.stdout).to_string();
        let mut got = vec![];
        for line in text.lines() {
            let mut f = line.splitn(4, '\t');
            let _chrom = f.next();
            let gs: u32 = f.next().and_then(|x| x.parse().ok()).unwrap_or(u32::MAX);
            let ge: u32 = f.next().and_then(|x| x.parse().ok()).unwrap_or(u32::MAX);
            got.push(Item::bed(gs, ge, f.next().unwrap_or("")));
        }
        if let Err(m) = bed_answer_ok(&got, &ch.items, s, e) {
            return viol("intersect-tool", format!("bigtools intersect {} {}", ch.name, m));
        }
        *st.counters.entry("queries_through_bigtools_intersect(subprocess)".into()).or_insert(0) += 1;
        done += 1;
        if done >= 3 {
            break;
        }
    }
    Verdict::Pass
}

/// C05: queries that start or end on a block boundary or one base either side of it.
pub fn sweep_ops(file: &PipeCase, model: &FileModel) -> Vec<ROp> {
    let mut ops = vec![];
    let ips = file.opts.items_per_slot.max(1) as usize;
    for (c, ch) in file.chroms.iter().enumerate() {
        let mut pts: Vec<u32> = vec![];
        for blk in ch.items.chunks(ips) {
            let bs = blk[0].s;
            let be = blk.iter().map(|i| i.e).max().unwrap();
            for p in [bs, be] {
                for d in [-1i64, 0, 1] {
                    let q = (p as i64 + d).max(0).min(ch.len as i64) as u32;
                    pts.push(q);
                }
            }
        }
        pts.sort();
        pts.dedup();
        // ranges between neighbouring points, from each point to the chromosome ends, and width-1 ranges
        for w in pts.windows(2) {
            ops.push(ROp::Interval { c, s: w[0], e: w[1] });
        }
        // long ranges cost O(n) each: sample them so that a file costs O(n) overall
        let stride = (pts.len() / 40).max(1);
        for (k, p) in pts.iter().enumerate() {
            if *p < ch.len {
                ops.push(ROp::Interval { c, s: *p, e: *p + 1 });
            }
            if k % stride != 0 {
                continue;
            }
            if *p > 0 {
                ops.push(ROp::Interval { c, s: 0, e: *p });
            }
            if *p < ch.len {
                ops.push(ROp::Interval { c, s: *p, e: ch.len });
            }
        }
        for (li, (_, per)) in model.zooms.iter().enumerate() {
            if let Some((_, recs)) = per.iter().find(|(n, _)| *n == ch.name) {
                let mut zp: Vec<u32> = vec![];
                for r in recs {
                    for p in [r.start, r.end] {
                        for d in [-1i64, 0, 1] {
                            zp.push((p as i64 + d).max(0).min(ch.len as i64) as u32);
                        }
                    }
                }
                zp.sort();
                zp.dedup();
                for w in zp.windows(2) {
                    if w[0] < w[1] {
                        ops.push(ROp::Zoom { c, s: w[0], e: w[1], level: li });
                    }
                }
                let zstride = (zp.len() / 30).max(1);
                for p in zp.iter().step_by(zstride) {
                    if *p < ch.len {
                        ops.push(ROp::Zoom { c, s: *p, e: ch.len, level: li });
                    }
                    if *p > 0 {
                        ops.push(ROp::Zoom { c, s: 0, e: *p, level: li });
                    }
                }
            }
        }
    }
    ops
}

/// C05 case generator: stratified over tree shapes.
pub fn gen_c05(rng: &mut Rng, idx: u64) -> ReadCase {
    let kind = if rng.chance(1, 2) { Kind::Wig } else { Kind::Bed };
    // stratification: cycle through (levels, fill class) targets, then sample freely
    let b = rng.range(2, 9) as u32;
    let target = idx % 16;
    let n: u64 = if target < 12 {
        let levels = 1 + (target / 3) as u32; // 1..4
        let fill = target % 3; // 0 full, 1 partial, 2 single child in the last node
        let lo = if levels == 1 { 1 } else { (b as u64).pow(levels - 1) + 1 };
        let hi = (b as u64).pow(levels);
        let n = match fill {
            0 => hi,
            2 => {
                // last leaf node holds a single block
                let k = rng.range(lo.max(1), hi);
                let k = k - (k % b as u64) + 1;
                k.max(lo).min(hi)
            }
            _ => rng.range(lo, hi),
        };
        n.min(700)
    } else {
        rng.range(1, 700)
    };
    let nchrom = if n >= 3 { rng.range(1, 3) } else { 1 };
    let names = ["chr1", "chr2", "chr3"];
    let mut chroms: Vec<Chrom> = vec![];
    let mut remaining = n;
    for ci in 0..nchrom {
        let take = if ci + 1 == nchrom { remaining } else { rng.range(1, remaining - (nchrom - ci - 1)) };
        remaining -= take;
        let mut items = vec![];
        let mut pos = rng.below(5) as u32;
        for _ in 0..take {
            let len = 1 + rng.below(6) as u32;
            let gap = rng.below(4) as u32;
            match kind {
                Kind::Wig => {
                    pos += gap;
                    items.push(Item::wig(pos, pos + len, (pos % 13) as f32 + 0.5));
                    pos += len;
                }
                Kind::Bed => {
                    let long = if rng.chance(1, 10) { rng.range(20, 200) as u32 } else { len };
                    items.push(Item::bed(pos, pos + long, ""));
                    pos += gap.max(if rng.chance(1, 3) { 0 } else { 1 });
                }
            }
        }
        let end = items.iter().map(|i| i.e).max().unwrap_or(1);
        chroms.push(Chrom {
            name: names[ci as usize].to_string(),
            len: end + rng.below(3) as u32,
            items,
        });
    }
    let mut opts = Opts::default();
    opts.items_per_slot = 1;
    opts.block_size = b;
    opts.compress = rng.chance(1, 2);
    opts.inmemory = true;
    opts.manual_zooms = if rng.chance(1, 2) {
        Some(vec![*rng.pick(&[2u32, 3, 5, 8]), 64])
    } else {
        Some(vec![])
    };
    let file = PipeCase {
        kind,
        chroms,
        extra_sizes: vec![],
        opts,
        source: Source::SerialIter,
        multipass: rng.chance(1, 4),
        autosql: None,
        sched: Sched::Calm,
        sink: SinkFaults::default(),
        read: ReadFaults::default(),
        bad: None,
        mt_threads: 0,
    };
    ReadCase {
        file,
        ops: vec![],
        read: if rng.chance(1, 3) {
            ReadFaults {
                short_pm: 300,
                eintr_pm: 100,
                seed: rng.next_u64(),
                hard: None,
                hard_kind: 0,
            }
        } else {
            ReadFaults::default()
        },
        cached: rng.chance(1, 2),
        sweep: true,
    }
}

/// C05: tree walk by the independent decoder + boundary sweep through the public API.
pub fn run_c05(rc: &ReadCase) -> RunReport {
    let mut st = RunStats::default();
    let out = pipesim::run_write(&rc.file, false);
    if out.result != WriteResult::Ok {
        return RunReport {
            verdict: viol("write-failed", format!("{:?}", out.result)),
            nontrivial: false,
            stats: st,
        };
    }
    let dec = match decode::decode(&out.image) {
        Ok(d) => d,
        Err(e) => {
            return RunReport {
                verdict: viol("undecodable", e),
                nontrivial: false,
                stats: st,
            }
        }
    };
    let n = crate::props::sections_of(&rc.file);
    let class_of = |ix: &decode::DIndex, what: &str| -> String {
        let fills: Vec<String> = ix
            .shape
            .iter()
            .map(|(_, last)| {
                if *last as u32 == ix.block_size {
                    "full".to_string()
                } else if *last == 1 {
                    "single".to_string()
                } else {
                    "partial".to_string()
                }
            })
            .collect();
        format!("{}:levels={} last_nodes={}", what, ix.levels, fills.join("/"))
    };
    st.classes.push(class_of(&dec.main_index, "main"));
    for z in &dec.zooms {
        st.classes.push(class_of(&z.index, "zoom"));
    }
    *st.counters.entry(format!("fanout_{}", rc.file.opts.block_size)).or_insert(0) += 1;
    // (a) structural walk: problems concerning any index are violations
    if let Some(p) = dec.problems.iter().find(|p| p.contains("index") || p.contains("leaf") || p.contains("node")) {
        return RunReport {
            verdict: viol("index-structure", p.clone()),
            nontrivial: n >= 2,
            stats: st,
        };
    }
    // linear scan of all leaves = one block per item, in order
    if dec.main_index.leaves.len() as u64 != n {
        return RunReport {
            verdict: viol(
                "index-structure",
                format!("{} leaves in the main index, {} blocks written", dec.main_index.leaves.len(), n),
            ),
            nontrivial: n >= 2,
            stats: st,
        };
    }
    let mut rep = run_read_case_with_image(rc, out.image, &mut st);
    rep.nontrivial = n >= 2;
    rep
}

fn run_read_case_with_image(rc: &ReadCase, image: Vec<u8>, st0: &mut RunStats) -> RunReport {
    let mut st = std::mem::take(st0);
    let model = match model_of_written(&rc.file, &image) {
        Ok(m) => m,
        Err(e) => {
            return RunReport {
                verdict: viol("undecodable", e),
                nontrivial: false,
                stats: st,
            }
        }
    };
    let image = Arc::new(image);
    let mut ops = rc.ops.clone();
    ops.extend(sweep_ops(&rc.file, &model));
    let verdict = run_history_on(image, &model, &ops, &rc.read, rc.cached, &mut st);
    st.steps = ops.len() as u64;
    st.trace_hash = crate::rng::hash_bytes(&serde_json::to_vec(&rc.file.chroms).unwrap());
    RunReport {
        verdict,
        nontrivial: true,
        stats: st,
    }
}

pub fn shrink_read(rc: &ReadCase) -> Vec<ReadCase> {
    let mut out = vec![];
    // drop ops (chunks, then singles)
    let n = rc.ops.len();
    let mut chunk = n / 2;
    while chunk >= 1 {
        let mut start = 0;
        while start < n {
            let end = (start + chunk).min(n);
            let mut c = rc.clone();
            c.ops.drain(start..end);
            out.push(c);
            start += chunk;
        }
        if chunk == 1 {
            break;
        }
        chunk /= 2;
    }
    {
        let mut c = rc.clone();
        c.read = ReadFaults::default();
        if c != *rc {
            out.push(c);
        }
    }
    for f in crate::props::shrink_pipe(&rc.file) {
        // keep ops valid: clamp chromosome indices and coordinates
        let mut c = rc.clone();
        c.file = f;
        let nch = c.file.chroms.len();
        let mut ok = true;
        for op in &mut c.ops {
            match op {
                ROp::Interval { c: ci, s, e }
                | ROp::Partial { c: ci, s, e, .. }
                | ROp::Move { c: ci, s, e }
                | ROp::Values { c: ci, s, e }
                | ROp::Zoom { c: ci, s, e, .. } => {
                    if *ci >= nch {
                        ok = false;
                        break;
                    }
                    let len = c.file.chroms[*ci].len;
                    *s = (*s).min(len);
                    *e = (*e).min(len);
                }
                _ => {}
            }
        }
        if ok {
            out.push(c);
        }
    }
    out
}

// ------------------------------------------------------------------------------------------- C10

use crate::encode::{self, EncSpec};

#[derive(Clone, Debug, PartialEq, Serialize, Deserialize)]
pub struct EncCase {
    pub spec: EncSpec,
    pub ops: Vec<ROp>,
    pub read: ReadFaults,
    pub cached: bool,
}

fn pseudo_file(spec: &EncSpec) -> PipeCase {
    PipeCase {
        kind: spec.kind,
        chroms: spec
            .chroms
            .iter()
            .map(|c| Chrom {
                name: c.name.clone(),
                len: c.len,
                items: encode::items_of(c),
            })
            .collect(),
        extra_sizes: vec![],
        opts: Opts {
            items_per_slot: 4,
            ..Opts::default()
        },
        source: Source::SerialIter,
        multipass: false,
        autosql: None,
        sched: Sched::Calm,
        sink: SinkFaults::default(),
        read: ReadFaults::default(),
        bad: None,
        mt_threads: 0,
    }
}

pub fn gen_c10(rng: &mut Rng) -> EncCase {
    let spec = encode::gen_spec(rng);
    let pf = pseudo_file(&spec);
    let n = rng.range(4, 30) as usize;
    let mut ops = gen_ops(rng, &pf, n, spec.zooms.len());
    // always include the full span of the last chromosome in file order (its index entries sit at the very end of the tree)
    let last = spec
        .chroms
        .iter()
        .enumerate()
        .max_by_key(|(_, c)| c.id)
        .map(|(i, _)| i)
        .unwrap_or(0);
    ops.push(ROp::Interval {
        c: last,
        s: 0,
        e: spec.chroms[last].len,
    });
    if !spec.zooms.is_empty() {
        ops.push(ROp::Zoom {
            c: last,
            s: 0,
            e: spec.chroms[last].len,
            level: spec.zooms.len() - 1,
        });
    }
    ops.push(ROp::Summary);
    let mut ec = EncCase {
        spec,
        ops,
        read: if rng.chance(1, 2) {
            ReadFaults {
                short_pm: *rng.pick(&[100u16, 600]),
                eintr_pm: *rng.pick(&[0u16, 200]),
                seed: rng.next_u64(),
                hard: None,
                hard_kind: 0,
            }
        } else {
            ReadFaults::default()
        },
        cached: rng.chance(1, 2),
    };
    if rng.chance(1, 4) {
        ec.read.hard = Some((rng.below(ec.ops.len() as u64) as u32, rng.below(10) as u32));
        ec.read.hard_kind = rng.below(4) as u8;
    }
    ec
}

pub fn run_c10(ec: &EncCase) -> RunReport {
    let mut st = RunStats::default();
    // an encoder bug must never be reported as a reader bug
    if let Err(e) = encode::selftest_roundtrip(&ec.spec) {
        return RunReport {
            verdict: Verdict::Skip(format!("HARNESS: encoder self-test failed: {}", e)),
            nontrivial: false,
            stats: st,
        };
    }
    let enc = encode::encode(&ec.spec);
    let pf = pseudo_file(&ec.spec);
    let model = FileModel {
        kind: ec.spec.kind,
        chroms: pf.chroms.clone(),
        zooms: enc.zooms.clone(),
        summary: Some(enc.summary.unwrap_or((0, 0.0, 0.0, 0.0, 0.0))),
    };
    let image = Arc::new(enc.bytes);
    let sp = &ec.spec;
    st.classes.push(format!(
        "{:?} {} {} v{} bpt{} rtree{} order{}",
        sp.kind,
        if sp.big_endian { "BE" } else { "LE" },
        if sp.compress { "zlib" } else { "raw" },
        sp.version,
        if sp.chroms.len() as u32 > sp.bpt_block_size { "multi" } else { "leaf" },
        if sp.chroms.iter().map(|c| c.blocks.len()).sum::<usize>() as u32 > sp.rtree_block_size { "multi" } else { "leaf" },
        sp.node_order
    ));
    for c in &sp.chroms {
        for b in &c.blocks {
            if sp.kind == Kind::Wig {
                *st.counters.entry(format!("section_type_{}", b.section_type)).or_insert(0) += 1;
            }
        }
    }
    // table and type through GenericBBIRead::open
    let table = std::panic::catch_unwind(std::panic::AssertUnwindSafe(|| -> Result<(), (String, String)> {
        let g = bigtools::GenericBBIRead::open(SimRead::new(image.clone(), &ec.read))
            .map_err(|e| ("open-failed".to_string(), format!("GenericBBIRead::open: {}", e)))?;
        let (chroms, is_wig): (Vec<bigtools::ChromInfo>, bool) = match &g {
            bigtools::GenericBBIRead::BigWig(b) => (b.chroms().to_vec(), true),
            bigtools::GenericBBIRead::BigBed(b) => (b.chroms().to_vec(), false),
        };
        if is_wig != (sp.kind == Kind::Wig) {
            return Err(("wrong-answer".into(), "GenericBBIRead opened the wrong file type".into()));
        }
        let mut got: Vec<(String, u32)> = chroms.iter().map(|c| (c.name.clone(), c.length)).collect();
        got.sort();
        let mut want: Vec<(String, u32)> = sp.chroms.iter().map(|c| (c.name.clone(), c.len)).collect();
        want.sort();
        if got != want {
            return Err((
                "wrong-answer".into(),
                format!("chromosome table {:?} expected {:?}", got, want),
            ));
        }
        if let bigtools::GenericBBIRead::BigBed(mut b) = g {
            let a = b.autosql().map_err(|e| ("read-error".to_string(), format!("autosql: {}", e)))?;
            if a != sp.autosql {
                return Err(("wrong-answer".into(), format!("autosql {:?} expected {:?}", a, sp.autosql)));
            }
            let n = b.item_count().map_err(|e| ("read-error".to_string(), format!("item_count: {}", e)))?;
            let want: u64 = pf.chroms.iter().map(|c| c.items.len() as u64).sum();
            if n != want {
                return Err(("wrong-answer".into(), format!("item_count {} expected {}", n, want)));
            }
        }
        Ok(())
    }));
    let verdict = match table {
        Err(p) => viol("reader-panic", panic_message(p)),
        Ok(Err((c, d))) => viol(&c, d),
        Ok(Ok(())) => {
            let v = run_history_on(image.clone(), &model, &ec.ops, &ec.read, ec.cached, &mut st);
            match v {
                Verdict::Pass => run_history_on(image.clone(), &model, &ec.ops, &ec.read, !ec.cached, &mut st),
                v => v,
            }
        }
    };
    // one case in eight: the same file through the single-threaded converter (bigwigtobedgraph / bigbedtobed)
    let verdict = if verdict == Verdict::Pass && crate::rng::hash_bytes(&image) % 8 == 0 {
        *st.counters.entry("files_through_converter".into()).or_insert(0) += 1;
        converter_check(sp, &pf, &image)
    } else {
        verdict
    };
    st.steps = ec.ops.len() as u64;
    st.trace_hash = crate::rng::hash_bytes(&serde_json::to_vec(&ec.ops).unwrap());
    RunReport {
        verdict,
        nontrivial: sp.chroms.iter().map(|c| c.blocks.len()).sum::<usize>() >= 2,
        stats: st,
    }
}

fn converter_check(sp: &EncSpec, pf: &PipeCase, image: &[u8]) -> Verdict {
    let dir = match tempfile::tempdir() {
        Ok(d) => d,
        Err(e) => return Verdict::Skip(format!("HARNESS: tempdir: {}", e)),
    };
    let big = dir.path().join("enc.big");
    let outp = dir.path().join("out.txt");
    if std::fs::write(&big, image).is_err() {
        return Verdict::Skip("HARNESS: scratch write".into());
    }
    let res = std::panic::catch_unwind(std::panic::AssertUnwindSafe(|| -> Result<(), String> {
        let f = std::fs::File::create(&outp).map_err(|e| e.to_string())?;
        match sp.kind {
            Kind::Wig => {
                let r = BigWigRead::open_file(&big).map_err(|e| e.to_string())?;
                bigtools::utils::cli::bigwigtobedgraph::write_bg_singlethreaded(r, f, None, None, None).map_err(|e| e.to_string())
            }
            Kind::Bed => {
                let r = BigBedRead::open_file(&big).map_err(|e| e.to_string())?;
                bigtools::utils::cli::bigbedtobed::write_bed_singlethreaded(r, f, None, None, None, None).map_err(|e| e.to_string())
            }
        }
    }));
    match res {
        Err(p) => return viol("reader-panic", format!("converter: {}", panic_message(p))),
        Ok(Err(e)) => return viol("read-error", format!("converter: {}", e)),
        Ok(Ok(())) => {}
    }
    let text = std::fs::read_to_string(&outp).unwrap_or_default();
    // expected: chromosomes in the order of the chromosome tree (sorted by name), records in stored order
    let mut chroms: Vec<&Chrom> = pf.chroms.iter().collect();
    chroms.sort_by(|a, b| a.name.as_bytes().cmp(b.name.as_bytes()));
    let mut want: Vec<(String, u32, u32, String)> = vec![];
    for c in chroms {
        for it in &c.items {
            want.push((c.name.clone(), it.s, it.e, if sp.kind == Kind::Wig { String::new() } else { it.rest.clone() }));
        }
    }
    let mut got: Vec<(String, u32, u32, String, f32)> = vec![];
    for line in text.lines() {
        let mut f = line.splitn(4, '\t');
        let c = f.next().unwrap_or("").to_string();
        let s: u32 = f.next().and_then(|x| x.parse().ok()).unwrap_or(u32::MAX);
        let e: u32 = f.next().and_then(|x| x.parse().ok()).unwrap_or(u32::MAX);
        let rest = f.next().unwrap_or("").to_string();
        if sp.kind == Kind::Wig {
            got.push((c, s, e, String::new(), rest.parse::<f32>().unwrap_or(f32::NAN)));
        } else {
            got.push((c, s, e, rest, 0.0));
        }
    }
    if got.len() != want.len() {
        return viol("wrong-answer", format!("converter wrote {} records, the file encodes {}", got.len(), want.len()));
    }
    let vals: Vec<f32> = {
        let mut chroms: Vec<&Chrom> = pf.chroms.iter().collect();
        chroms.sort_by(|a, b| a.name.as_bytes().cmp(b.name.as_bytes()));
        chroms.iter().flat_map(|c| c.items.iter().map(|i| i.v())).collect()
    };
    for (k, (g, w)) in got.iter().zip(&want).enumerate() {
        let same = g.0 == w.0 && g.1 == w.1 && g.2 == w.2 && g.3 == w.3 && (sp.kind == Kind::Bed || g.4 == vals[k] || g.4.to_bits() == vals[k].to_bits());
        if !same {
            return viol("wrong-answer", format!("converter record {}: got {:?}, encoded {:?}", k, g, w));
        }
    }
    Verdict::Pass
}

pub fn shrink_c10(ec: &EncCase) -> Vec<EncCase> {
    let mut out = vec![];
    let n = ec.ops.len();
    let mut chunk = (n / 2).max(1);
    loop {
        let mut start = 0;
        while start < n {
            let end = (start + chunk).min(n);
            let mut c = ec.clone();
            c.ops.drain(start..end);
            out.push(c);
            start += chunk;
        }
        if chunk == 1 {
            break;
        }
        chunk /= 2;
    }
    let mut push = |f: &dyn Fn(&mut EncCase)| {
        let mut c = ec.clone();
        f(&mut c);
        if c != *ec {
            out.push(c);
        }
    };
    push(&|c| c.read = ReadFaults::default());
    push(&|c| c.spec.zooms.clear());
    push(&|c| c.spec.compress = false);
    push(&|c| c.spec.big_endian = false);
    push(&|c| c.spec.node_order = 0);
    push(&|c| c.spec.block_gap = 0);
    push(&|c| c.spec.version = 4);
    push(&|c| c.spec.bpt_block_size = 256);
    push(&|c| c.spec.rtree_block_size = 256);
    // drop chromosomes not referenced by any op
    for k in 0..ec.spec.chroms.len() {
        let used = ec.ops.iter().any(|op| match op {
            ROp::Interval { c, .. } | ROp::Partial { c, .. } | ROp::Move { c, .. } | ROp::Values { c, .. } | ROp::Zoom { c, .. } => *c == k,
            _ => false,
        });
        if !used && ec.spec.chroms.len() > 1 {
            push(&move |c| {
                c.spec.chroms.remove(k);
                for op in &mut c.ops {
                    match op {
                        ROp::Interval { c: ci, .. }
                        | ROp::Partial { c: ci, .. }
                        | ROp::Move { c: ci, .. }
                        | ROp::Values { c: ci, .. }
                        | ROp::Zoom { c: ci, .. } => {
                            if *ci > k {
                                *ci -= 1;
                            }
                        }
                        _ => {}
                    }
                }
            });
        }
    }
    for k in 0..ec.spec.chroms.len() {
        let nb = ec.spec.chroms[k].blocks.len();
        if nb > 1 {
            push(&move |c| c.spec.chroms[k].blocks.truncate(nb / 2));
            push(&move |c| {
                c.spec.chroms[k].blocks.drain(0..nb / 2);
            });
        }
    }
    out
}

//! Independent encoder of well-formed bigWig/bigBed files in layouts bigtools itself never writes
//! (C10): either byte order, zlib or raw, section types 1/2/3, multi-level chromosome trees, R-trees
//! of any fan-out/depth/node placement, versions 1-4. Written from the format description.

use serde::{Deserialize, Serialize};

use crate::decode::{self, DZoomRec};
use crate::model::*;
use crate::oracle::{signal, stats_in};
use crate::rng::Rng;

#[derive(Clone, Debug, PartialEq, Serialize, Deserialize)]
pub struct EBlock {
    /// bigWig section type 1 (bedGraph), 2 (variableStep), 3 (fixedStep); ignored for bigBed
    pub section_type: u8,
    pub items: Vec<Item>,
}

#[derive(Clone, Debug, PartialEq, Serialize, Deserialize)]
pub struct EChrom {
    pub name: String,
    pub id: u32,
    pub len: u32,
    pub blocks: Vec<EBlock>,
}

#[derive(Clone, Debug, PartialEq, Serialize, Deserialize)]
pub struct EncSpec {
    pub kind: Kind,
    pub big_endian: bool,
    pub compress: bool,
    pub version: u16,
    pub chroms: Vec<EChrom>,
    pub bpt_block_size: u32,
    pub rtree_block_size: u32,
    /// 0 level order, 1 depth first, 2 children-before-parents (reverse level order), 3 depth first with gaps
    pub node_order: u8,
    pub zooms: Vec<u32>,
    pub zoom_items_per_block: u32,
    pub autosql: Option<String>,
    /// bytes of padding between data blocks
    pub block_gap: u8,
}

struct W {
    b: Vec<u8>,
    be: bool,
}
impl W {
    fn u8(&mut self, v: u8) {
        self.b.push(v)
    }
    fn u16(&mut self, v: u16) {
        if self.be {
            self.b.extend_from_slice(&v.to_be_bytes())
        } else {
            self.b.extend_from_slice(&v.to_le_bytes())
        }
    }
    fn u32(&mut self, v: u32) {
        if self.be {
            self.b.extend_from_slice(&v.to_be_bytes())
        } else {
            self.b.extend_from_slice(&v.to_le_bytes())
        }
    }
    fn u64(&mut self, v: u64) {
        if self.be {
            self.b.extend_from_slice(&v.to_be_bytes())
        } else {
            self.b.extend_from_slice(&v.to_le_bytes())
        }
    }
    fn f32(&mut self, v: f32) {
        self.u32(v.to_bits())
    }
    fn f64(&mut self, v: f64) {
        self.u64(v.to_bits())
    }
    fn pos(&self) -> u64 {
        self.b.len() as u64
    }
    fn put_u64_at(&mut self, at: u64, v: u64) {
        let bytes = if self.be { v.to_be_bytes() } else { v.to_le_bytes() };
        self.b[at as usize..at as usize + 8].copy_from_slice(&bytes);
    }
    fn put_u32_at(&mut self, at: u64, v: u32) {
        let bytes = if self.be { v.to_be_bytes() } else { v.to_le_bytes() };
        self.b[at as usize..at as usize + 4].copy_from_slice(&bytes);
    }
    fn put_u16_at(&mut self, at: u64, v: u16) {
        let bytes = if self.be { v.to_be_bytes() } else { v.to_le_bytes() };
        self.b[at as usize..at as usize + 2].copy_from_slice(&bytes);
    }
}

fn deflate(raw: &[u8], level: u8) -> Vec<u8> {
    miniz_oxide::deflate::compress_to_vec_zlib(raw, level)
}

#[derive(Clone, Debug)]
struct Leaf {
    chrom: u32,
    start: u32,
    end: u32,
    offset: u64,
    size: u64,
}

/// R-tree node in memory
struct Node {
    leaf: bool,
    // span
    sc: u32,
    sb: u32,
    ec: u32,
    eb: u32,
    kids: Vec<usize>,  // indices into nodes (non-leaf)
    leaves: Vec<Leaf>, // leaf node payload
    offset: u64,
}

fn node_size(n: &Node) -> u64 {
    if n.leaf {
        4 + 32 * n.leaves.len() as u64
    } else {
        4 + 24 * n.kids.len() as u64
    }
}

/// Writes an R-tree index (header + nodes) at the current position.
fn write_rtree(w: &mut W, leaves: &[Leaf], fanout: u32, items_per_slot: u32, order: u8, end_of_data: u64, rng_salt: u64) {
    let fanout = fanout.max(2) as usize;
    let mut nodes: Vec<Node> = vec![];
    // leaf level
    let mut level: Vec<usize> = vec![];
    if leaves.is_empty() {
        nodes.push(Node {
            leaf: true,
            sc: 0,
            sb: 0,
            ec: 0,
            eb: 0,
            kids: vec![],
            leaves: vec![],
            offset: 0,
        });
        level.push(0);
    }
    for chunk in leaves.chunks(fanout) {
        let (ec, eb) = chunk.iter().map(|l| (l.chrom, l.end)).max().unwrap();
        nodes.push(Node {
            leaf: true,
            sc: chunk[0].chrom,
            sb: chunk[0].start,
            ec,
            eb,
            kids: vec![],
            leaves: chunk.to_vec(),
            offset: 0,
        });
        level.push(nodes.len() - 1);
    }
    let mut levels: Vec<Vec<usize>> = vec![level.clone()];
    while level.len() > 1 {
        let mut next = vec![];
        for chunk in level.chunks(fanout) {
            let (ec, eb) = chunk.iter().map(|i| (nodes[*i].ec, nodes[*i].eb)).max().unwrap();
            let n = Node {
                leaf: false,
                sc: nodes[chunk[0]].sc,
                sb: nodes[chunk[0]].sb,
                ec,
                eb,
                kids: chunk.to_vec(),
                leaves: vec![],
                offset: 0,
            };
            nodes.push(n);
            next.push(nodes.len() - 1);
        }
        levels.push(next.clone());
        level = next;
    }
    let root = level[0];
    // placement order; the root always comes first (it must sit right behind the 48-byte header)
    let mut order_list: Vec<usize> = vec![root];
    match order % 4 {
        0 => {
            for lv in levels.iter().rev().skip(1) {
                order_list.extend(lv.iter().copied());
            }
        }
        2 => {
            // children before parents: leaf level first, then upwards (root excluded)
            for lv in levels.iter().take(levels.len().saturating_sub(1)) {
                order_list.extend(lv.iter().rev().copied());
            }
        }
        _ => {
            // depth first
            fn dfs(nodes: &Vec<Node>, i: usize, out: &mut Vec<usize>) {
                for k in &nodes[i].kids {
                    out.push(*k);
                    dfs(nodes, *k, out);
                }
            }
            dfs(&nodes, root, &mut order_list);
        }
    }
    let header_at = w.pos();
    let (hsc, hsb, hec, heb) = (nodes[root].sc, nodes[root].sb, nodes[root].ec, nodes[root].eb);
    w.u32(decode::CIR_MAGIC);
    w.u32(fanout as u32);
    w.u64(leaves.len() as u64);
    w.u32(hsc);
    w.u32(hsb);
    w.u32(hec);
    w.u32(heb);
    w.u64(end_of_data);
    w.u32(items_per_slot);
    w.u32(0);
    debug_assert_eq!(w.pos(), header_at + 48);
    // assign offsets
    let mut pos = w.pos();
    let mut gap_seed = rng_salt;
    for i in &order_list {
        nodes[*i].offset = pos;
        pos += node_size(&nodes[*i]);
        if order % 4 == 3 {
            gap_seed = crate::rng::mix(gap_seed, 17);
            pos += gap_seed % 13;
        }
    }
    // emit
    for i in &order_list {
        let off = nodes[*i].offset;
        while w.pos() < off {
            w.u8(0xAA);
        }
        let n = &nodes[*i];
        w.u8(if n.leaf { 1 } else { 0 });
        w.u8(0);
        if n.leaf {
            w.u16(n.leaves.len() as u16);
            for l in &n.leaves {
                w.u32(l.chrom);
                w.u32(l.start);
                w.u32(l.chrom);
                w.u32(l.end);
                w.u64(l.offset);
                w.u64(l.size);
            }
        } else {
            w.u16(n.kids.len() as u16);
            for k in &n.kids {
                let c = &nodes[*k];
                w.u32(c.sc);
                w.u32(c.sb);
                w.u32(c.ec);
                w.u32(c.eb);
                w.u64(c.offset);
            }
        }
    }
}

/// Writes the chromosome B+ tree (multi-level when there are more chromosomes than the block size).
fn write_bpt(w: &mut W, chroms: &[EChrom], block_size: u32) {
    let block_size = block_size.max(2) as usize;
    let mut sorted: Vec<&EChrom> = chroms.iter().collect();
    sorted.sort_by(|a, b| a.name.as_bytes().cmp(b.name.as_bytes()));
    let key_size = sorted.iter().map(|c| c.name.len()).max().unwrap_or(1).max(1);
    w.u32(decode::BPT_MAGIC);
    w.u32(block_size as u32);
    w.u32(key_size as u32);
    w.u32(8);
    w.u64(sorted.len() as u64);
    w.u64(0);
    // build levels bottom-up: each node = list of (key, payload); leaves hold (id,len), inner hold child index
    struct BN {
        leaf: bool,
        keys: Vec<Vec<u8>>,
        vals: Vec<(u32, u32)>,
        kids: Vec<usize>,
        offset: u64,
    }
    let pad = |name: &str| -> Vec<u8> {
        let mut k = name.as_bytes().to_vec();
        k.resize(key_size, 0);
        k
    };
    let mut nodes: Vec<BN> = vec![];
    let mut level: Vec<usize> = vec![];
    if sorted.is_empty() {
        nodes.push(BN {
            leaf: true,
            keys: vec![],
            vals: vec![],
            kids: vec![],
            offset: 0,
        });
        level.push(0);
    }
    for chunk in sorted.chunks(block_size) {
        nodes.push(BN {
            leaf: true,
            keys: chunk.iter().map(|c| pad(&c.name)).collect(),
            vals: chunk.iter().map(|c| (c.id, c.len)).collect(),
            kids: vec![],
            offset: 0,
        });
        level.push(nodes.len() - 1);
    }
    while level.len() > 1 {
        let mut next = vec![];
        for chunk in level.chunks(block_size) {
            nodes.push(BN {
                leaf: false,
                keys: chunk.iter().map(|i| nodes[*i].keys[0].clone()).collect(),
                vals: vec![],
                kids: chunk.to_vec(),
                offset: 0,
            });
            next.push(nodes.len() - 1);
        }
        level = next;
    }
    let root = level[0];
    // depth-first placement, root first
    let mut order = vec![root];
    fn dfs(nodes: &Vec<BN>, i: usize, out: &mut Vec<usize>) {
        for k in &nodes[i].kids {
            out.push(*k);
            dfs(nodes, *k, out);
        }
    }
    dfs(&nodes, root, &mut order);
    let mut pos = w.pos();
    for i in &order {
        nodes[*i].offset = pos;
        let n = &nodes[*i];
        pos += 4 + (key_size as u64 + 8) * n.keys.len() as u64;
    }
    for i in &order {
        let n = &nodes[*i];
        w.u8(if n.leaf { 1 } else { 0 });
        w.u8(0);
        w.u16(n.keys.len() as u16);
        for (k, key) in n.keys.iter().enumerate() {
            w.b.extend_from_slice(key);
            if n.leaf {
                w.u32(n.vals[k].0);
                w.u32(n.vals[k].1);
            } else {
                w.u64(nodes[n.kids[k]].offset);
            }
        }
    }
}

fn encode_wig_block(be: bool, chrom: u32, blk: &EBlock) -> Vec<u8> {
    let mut w = W { b: vec![], be };
    let start = blk.items.first().map(|i| i.s).unwrap_or(0);
    let end = blk.items.iter().map(|i| i.e).max().unwrap_or(0);
    let (step, span) = match blk.section_type {
        2 => (0, blk.items.first().map(|i| i.e - i.s).unwrap_or(0)),
        3 => {
            let span = blk.items.first().map(|i| i.e - i.s).unwrap_or(0);
            let step = if blk.items.len() >= 2 { blk.items[1].s - blk.items[0].s } else { span };
            (step, span)
        }
        _ => (0, 0),
    };
    w.u32(chrom);
    w.u32(start);
    w.u32(end);
    w.u32(step);
    w.u32(span);
    w.u8(blk.section_type);
    w.u8(0);
    w.u16(blk.items.len() as u16);
    for it in &blk.items {
        match blk.section_type {
            1 => {
                w.u32(it.s);
                w.u32(it.e);
                w.f32(it.v());
            }
            2 => {
                w.u32(it.s);
                w.f32(it.v());
            }
            _ => w.f32(it.v()),
        }
    }
    w.b
}

fn encode_bed_block(be: bool, chrom: u32, blk: &EBlock) -> Vec<u8> {
    let mut w = W { b: vec![], be };
    for it in &blk.items {
        w.u32(chrom);
        w.u32(it.s);
        w.u32(it.e);
        w.b.extend_from_slice(it.rest.as_bytes());
        w.u8(0);
    }
    w.b
}

pub fn items_of(c: &EChrom) -> Vec<Item> {
    c.blocks.iter().flat_map(|b| b.items.iter().cloned()).collect()
}

/// Zoom records of one chromosome for one reduction: aligned tiles, empty tiles skipped.
pub fn zoom_records(kind: Kind, c: &EChrom, reduction: u32) -> Vec<DZoomRec> {
    let items = items_of(c);
    let segs = signal(kind, &items);
    let mut out = vec![];
    let mut tiles: Vec<u32> = vec![];
    for g in &segs {
        let mut t = g.s / reduction;
        loop {
            if tiles.last() != Some(&t) {
                tiles.push(t);
            }
            if (t as u64 + 1) * reduction as u64 >= g.e as u64 {
                break;
            }
            t += 1;
        }
    }
    tiles.dedup();
    for t in tiles {
        let s = t * reduction;
        let e = ((t as u64 + 1) * reduction as u64).min(u32::MAX as u64) as u32;
        let st = stats_in(&segs, s, e);
        if st.bases == 0 {
            continue;
        }
        out.push(DZoomRec {
            chrom: c.id,
            start: s,
            end: e.min(c.len.max(s + 1)),
            valid: st.bases as u32,
            min: st.min as f32,
            max: st.max as f32,
            sum: st.sum as f32,
            sumsq: st.sumsq as f32,
        });
    }
    out
}

pub struct Encoded {
    pub bytes: Vec<u8>,
    pub summary: Option<(u64, f64, f64, f64, f64)>,
    pub zooms: Vec<(u32, Vec<(String, Vec<DZoomRec>)>)>,
}

pub fn encode(spec: &EncSpec) -> Encoded {
    let be = spec.big_endian;
    let mut w = W { b: vec![], be };
    let wig = spec.kind == Kind::Wig;
    let nz = spec.zooms.len();
    // header placeholder
    w.b.resize(64 + 24 * nz, 0);
    let mut autosql_offset = 0u64;
    if !wig {
        if let Some(sql) = &spec.autosql {
            autosql_offset = w.pos();
            w.b.extend_from_slice(sql.as_bytes());
            w.u8(0);
        }
    }
    let has_summary = spec.version >= 2;
    let mut total_summary_offset = 0u64;
    if has_summary {
        total_summary_offset = w.pos();
        w.b.resize(w.b.len() + 40, 0);
    }
    // chromosome tree before the data (kent layout)
    let chrom_tree_offset = w.pos();
    write_bpt(&mut w, &spec.chroms, spec.bpt_block_size);
    let full_data_offset = w.pos();
    w.u64(0);
    // data blocks in (chrom id, position) order
    let mut by_id: Vec<&EChrom> = spec.chroms.iter().collect();
    by_id.sort_by_key(|c| c.id);
    let mut leaves: Vec<Leaf> = vec![];
    let mut max_raw = 0usize;
    let mut n_items = 0u64;
    for c in &by_id {
        for blk in &c.blocks {
            if blk.items.is_empty() {
                continue;
            }
            let raw = if wig { encode_wig_block(be, c.id, blk) } else { encode_bed_block(be, c.id, blk) };
            max_raw = max_raw.max(raw.len());
            n_items += blk.items.len() as u64;
            let out = if spec.compress { deflate(&raw, 1 + (raw.len() % 9) as u8) } else { raw };
            for _ in 0..spec.block_gap {
                w.u8(0x55);
            }
            let off = w.pos();
            w.b.extend_from_slice(&out);
            leaves.push(Leaf {
                chrom: c.id,
                start: blk.items.iter().map(|i| i.s).min().unwrap(),
                end: blk.items.iter().map(|i| i.e).max().unwrap(),
                offset: off,
                size: out.len() as u64,
            });
        }
    }
    let data_end = w.pos();
    let full_index_offset = w.pos();
    let max_items = spec
        .chroms
        .iter()
        .flat_map(|c| c.blocks.iter().map(|b| b.items.len()))
        .max()
        .unwrap_or(1) as u32;
    write_rtree(&mut w, &leaves, spec.rtree_block_size, max_items, spec.node_order, data_end, 1);
    // zoom levels
    let mut zoom_dir = vec![];
    let mut zoom_model = vec![];
    for (zi, red) in spec.zooms.iter().enumerate() {
        let data_off = w.pos();
        let mut zleaves = vec![];
        let mut per_chrom = vec![];
        for c in &by_id {
            let recs = zoom_records(spec.kind, c, *red);
            for chunk in recs.chunks(spec.zoom_items_per_block.max(1) as usize) {
                let mut zw = W { b: vec![], be };
                for r in chunk {
                    zw.u32(r.chrom);
                    zw.u32(r.start);
                    zw.u32(r.end);
                    zw.u32(r.valid);
                    zw.f32(r.min);
                    zw.f32(r.max);
                    zw.f32(r.sum);
                    zw.f32(r.sumsq);
                }
                max_raw = max_raw.max(zw.b.len());
                let out = if spec.compress { deflate(&zw.b, 6) } else { zw.b };
                let off = w.pos();
                w.b.extend_from_slice(&out);
                zleaves.push(Leaf {
                    chrom: c.id,
                    start: chunk[0].start,
                    end: chunk.iter().map(|r| r.end).max().unwrap(),
                    offset: off,
                    size: out.len() as u64,
                });
            }
            per_chrom.push((c.name.clone(), recs));
        }
        let zend = w.pos();
        let index_off = w.pos();
        write_rtree(
            &mut w,
            &zleaves,
            spec.rtree_block_size,
            spec.zoom_items_per_block.max(1),
            spec.node_order.wrapping_add(zi as u8 + 1),
            zend,
            7 + zi as u64,
        );
        zoom_dir.push((*red, data_off, index_off));
        zoom_model.push((*red, per_chrom));
    }
    // summary
    let mut summary = None;
    if has_summary {
        let mut bases = 0u64;
        let (mut mn, mut mx, mut sum, mut sumsq) = (f64::INFINITY, f64::NEG_INFINITY, 0.0, 0.0);
        for c in &spec.chroms {
            let segs = signal(spec.kind, &items_of(c));
            let st = stats_in(&segs, 0, u32::MAX);
            bases += st.bases;
            mn = mn.min(st.min);
            mx = mx.max(st.max);
            sum += st.sum;
            sumsq += st.sumsq;
        }
        if bases == 0 {
            mn = 0.0;
            mx = 0.0;
        }
        summary = Some((bases, mn, mx, sum, sumsq));
        let mut sw = W { b: vec![], be };
        sw.u64(bases);
        sw.f64(mn);
        sw.f64(mx);
        sw.f64(sum);
        sw.f64(sumsq);
        let o = total_summary_offset as usize;
        w.b[o..o + 40].copy_from_slice(&sw.b);
    }
    // data count
    let count = if wig { leaves.len() as u64 } else { n_items };
    w.put_u64_at(full_data_offset, count);
    // header
    let magic = if wig { decode::BIGWIG_MAGIC } else { decode::BIGBED_MAGIC };
    w.put_u32_at(0, magic);
    w.put_u16_at(4, spec.version);
    w.put_u16_at(6, nz as u16);
    w.put_u64_at(8, chrom_tree_offset);
    w.put_u64_at(16, full_data_offset);
    w.put_u64_at(24, full_index_offset);
    if !wig {
        let fc = crate::checks::expected_field_count(&spec.autosql).unwrap_or(3);
        w.put_u16_at(32, fc);
        w.put_u16_at(34, fc.min(12));
    }
    w.put_u64_at(36, autosql_offset);
    w.put_u64_at(44, total_summary_offset);
    w.put_u32_at(52, if spec.compress { max_raw as u32 + (max_raw as u32 % 7) } else { 0 });
    for (i, (red, d, x)) in zoom_dir.iter().enumerate() {
        let o = 64 + 24 * i as u64;
        w.put_u32_at(o, *red);
        w.put_u64_at(o + 8, *d);
        w.put_u64_at(o + 16, *x);
    }
    w.u32(magic);
    Encoded {
        bytes: w.b,
        summary,
        zooms: zoom_model,
    }
}

const NAMES: &[&str] = &[
    "chr1", "chr10", "chr2", "chrX", "chrM", "a", "ab", "scaffold_1", "scaffold_22", "Z", "chr3", "chr4", "chr5", "c6", "c7",
    "c8", "c9", "d1", "d2", "d3",
];

pub fn gen_spec(rng: &mut Rng) -> EncSpec {
    let kind = if rng.chance(3, 5) { Kind::Wig } else { Kind::Bed };
    let version = *rng.pick(&[1u16, 2, 3, 4, 4, 4]);
    let compress = version >= 3 && rng.chance(1, 2);
    let bpt_block_size = *rng.pick(&[2u32, 2, 3, 4, 256]);
    let nchrom = match rng.below(4) {
        0 => 1,
        1 => rng.range(2, 4),
        2 => rng.range(5, 9),
        _ => rng.range(3, 20),
    } as usize;
    let mut names: Vec<&str> = NAMES.to_vec();
    // seeded shuffle
    for i in (1..names.len()).rev() {
        let j = rng.below(i as u64 + 1) as usize;
        names.swap(i, j);
    }
    names.truncate(nchrom);
    // ids: a permutation (file order = id order, independent of name order)
    let mut ids: Vec<u32> = (0..nchrom as u32).collect();
    for i in (1..ids.len()).rev() {
        let j = rng.below(i as u64 + 1) as usize;
        ids.swap(i, j);
    }
    let mut chroms = vec![];
    for (k, name) in names.iter().enumerate() {
        let nblocks = match rng.below(6) {
            0 => 1,
            1..=3 => rng.range(1, 6),
            _ => rng.range(1, 40),
        };
        let mut blocks = vec![];
        let mut pos: u32 = rng.below(50) as u32;
        for _ in 0..nblocks {
            let n = rng.range(1, 9) as usize;
            let st = if kind == Kind::Wig { *rng.pick(&[1u8, 1, 2, 3]) } else { 0 };
            let mut items = vec![];
            match (kind, st) {
                (Kind::Wig, 1) => {
                    for _ in 0..n {
                        pos += rng.below(8) as u32;
                        let len = 1 + rng.below(20) as u32;
                        items.push(Item::wig(pos, pos + len, crate::gen::f32_pool(rng)));
                        pos += len;
                    }
                }
                (Kind::Wig, 2) => {
                    let span = 1 + rng.below(6) as u32;
                    for _ in 0..n {
                        pos += rng.below(9) as u32;
                        items.push(Item::wig(pos, pos + span, crate::gen::f32_pool(rng)));
                        pos += span;
                    }
                }
                (Kind::Wig, _) => {
                    let span = 1 + rng.below(6) as u32;
                    let step = span + rng.below(5) as u32;
                    pos += rng.below(9) as u32;
                    for _ in 0..n {
                        items.push(Item::wig(pos, pos + span, crate::gen::f32_pool(rng)));
                        pos += step;
                    }
                }
                (Kind::Bed, _) => {
                    for _ in 0..n {
                        let len = if rng.chance(1, 8) { rng.range(50, 900) as u32 } else { 1 + rng.below(30) as u32 };
                        items.push(Item::bed(pos, pos + len, &crate::gen::gen_rest(rng)));
                        pos += rng.below(12) as u32;
                    }
                }
            }
            blocks.push(EBlock {
                section_type: st,
                items,
            });
        }
        let end = blocks.iter().flat_map(|b| b.items.iter().map(|i| i.e)).max().unwrap_or(1);
        chroms.push(EChrom {
            name: name.to_string(),
            id: ids[k],
            len: end + rng.below(1000) as u32,
            blocks,
        });
    }
    let zooms = match rng.below(4) {
        0 => vec![],
        1 => vec![*rng.pick(&[4u32, 10, 32])],
        _ => vec![*rng.pick(&[2u32, 5, 16]), 64, 512],
    };
    EncSpec {
        kind,
        big_endian: rng.chance(1, 2),
        compress,
        version,
        chroms,
        bpt_block_size,
        rtree_block_size: *rng.pick(&[2u32, 2, 3, 4, 7, 256]),
        node_order: rng.below(4) as u8,
        zooms,
        zoom_items_per_block: *rng.pick(&[1u32, 2, 5, 100]),
        autosql: if kind == Kind::Bed && rng.chance(1, 2) {
            Some("table t \"x\" ( string chrom; \"c\" uint chromStart; \"s\" uint chromEnd; \"e\" )".to_string())
        } else {
            None
        },
        block_gap: *rng.pick(&[0u8, 0, 1, 5]),
    }
}

/// Self-test: the encoder's output must be well-formed for the independent decoder and decode to the spec.
pub fn selftest_roundtrip(spec: &EncSpec) -> Result<(), String> {
    let enc = encode(spec);
    let dec = decode::decode(&enc.bytes)?;
    if let Some(p) = dec.problems.first() {
        return Err(format!("decoder reports: {}", p));
    }
    let recs = dec.records_by_chrom();
    for c in &spec.chroms {
        let got = recs.get(&c.id).cloned().unwrap_or_default();
        if got != items_of(c) {
            return Err(format!("chromosome {} decodes differently", c.name));
        }
    }
    if dec.chroms.len() != spec.chroms.len() {
        return Err("chromosome count differs".into());
    }
    Ok(())
}

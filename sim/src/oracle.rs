//! Oracles derived from the model (the input) and the property texts - never from bigtools code.

use crate::decode::DZoomRec;
use crate::model::*;

/// A run of constant signal: for bigWig a stored value, for bigBed a stretch of constant coverage depth.
#[derive(Clone, Debug, PartialEq)]
pub struct Seg {
    pub s: u32,
    pub e: u32,
    pub v: f64,
}

/// The function being summarised, per chromosome, as disjoint sorted segments of positive length.
pub fn signal(kind: Kind, items: &[Item]) -> Vec<Seg> {
    match kind {
        Kind::Wig => items
            .iter()
            .filter(|i| i.e > i.s)
            .map(|i| Seg {
                s: i.s,
                e: i.e,
                v: i.v() as f64,
            })
            .collect(),
        Kind::Bed => depth(items),
    }
}

/// Per-base coverage depth of bed entries as run-length segments (depth >= 1 only).
pub fn depth(items: &[Item]) -> Vec<Seg> {
    let mut ev: Vec<(u32, i32)> = vec![];
    for i in items {
        if i.e > i.s {
            ev.push((i.s, 1));
            ev.push((i.e, -1));
        }
    }
    ev.sort();
    let mut out: Vec<Seg> = vec![];
    let mut d = 0i64;
    let mut prev = 0u32;
    let mut k = 0;
    while k < ev.len() {
        let pos = ev[k].0;
        if d > 0 && pos > prev {
            match out.last_mut() {
                Some(l) if l.e == prev && l.v == d as f64 => l.e = pos,
                _ => out.push(Seg {
                    s: prev,
                    e: pos,
                    v: d as f64,
                }),
            }
        }
        while k < ev.len() && ev[k].0 == pos {
            d += ev[k].1 as i64;
            k += 1;
        }
        prev = pos;
    }
    out
}

#[derive(Clone, Debug, Default)]
pub struct Stats {
    pub bases: u64,
    pub min: f64,
    pub max: f64,
    pub sum: f64,
    pub sumsq: f64,
    /// sum of |term| for tolerance
    pub abs_sum: f64,
    pub abs_sumsq: f64,
}

/// Statistics of the signal restricted to [s, e).
pub fn stats_in(segs: &[Seg], s: u32, e: u32) -> Stats {
    let mut st = Stats {
        min: f64::INFINITY,
        max: f64::NEG_INFINITY,
        ..Default::default()
    };
    // binary search for the first segment that could intersect
    let mut lo = segs.partition_point(|g| g.e <= s);
    while lo < segs.len() && segs[lo].s < e {
        let g = &segs[lo];
        let a = g.s.max(s);
        let b = g.e.min(e);
        if b > a {
            let n = (b - a) as f64;
            st.bases += (b - a) as u64;
            st.min = st.min.min(g.v);
            st.max = st.max.max(g.v);
            st.sum += n * g.v;
            st.sumsq += n * g.v * g.v;
            st.abs_sum += n * g.v.abs();
            st.abs_sumsq += n * g.v * g.v;
        }
        lo += 1;
    }
    st
}

pub fn f64_close(got: f64, want: f64, scale: f64) -> bool {
    if got == want {
        return true;
    }
    if !got.is_finite() || !want.is_finite() {
        return false;
    }
    (got - want).abs() <= 1e-9 * scale.abs().max(want.abs()) + f64::MIN_POSITIVE
}

/// Compare a stored f32 statistic with the f64 expectation "to single-precision rounding".
pub fn f32_close(got: f32, want: f64, scale: f64) -> bool {
    let g = got as f64;
    if g == want {
        return true;
    }
    let same_sign_inf = got.is_infinite() && (got > 0.0) == (want > 0.0);
    if want.abs() > f32::MAX as f64 {
        // expectation overflows single precision: infinity (or the largest finite value) is what rounding gives
        return same_sign_inf || (got.abs() == f32::MAX && (got > 0.0) == (want > 0.0));
    }
    if same_sign_inf && want.abs() > f32::MAX as f64 * 0.999_999 {
        return true;
    }
    if !got.is_finite() {
        return false;
    }
    let tol = want.abs() * 2.4e-7 + scale.abs() * 1e-9 + 1.5e-45;
    (g - want).abs() <= tol
}

/// bigWig: values overlapping [s,e) clipped, in order (strict overlap; zero-length values never overlap).
pub fn expect_interval(items: &[Item], s: u32, e: u32) -> Vec<Item> {
    items
        .iter()
        .filter(|i| i.e > s && i.s < e)
        .map(|i| Item::wig(i.s.max(s), i.e.min(e), i.v()))
        .collect()
}

/// bigWig per-base values, NaN where no data.
pub fn expect_values(items: &[Item], s: u32, e: u32) -> Vec<f32> {
    let mut v = vec![f32::NAN; (e - s) as usize];
    for i in items {
        if i.e > s && i.s < e {
            for p in i.s.max(s)..i.e.min(e) {
                v[(p - s) as usize] = i.v();
            }
        }
    }
    v
}

/// bigBed: entries that must be returned for [s,e) (strict overlap of a non-empty entry with a non-empty range).
pub fn bed_must(it: &Item, s: u32, e: u32) -> bool {
    it.e > it.s && e > s && it.e > s && it.s < e
}

/// bigBed: entries that may be returned (touching counts).
pub fn bed_may(it: &Item, s: u32, e: u32) -> bool {
    it.e >= s && it.s <= e
}

/// Validates one zoom level of one chromosome against the signal. Returns the first problem.
pub fn check_zoom_level(
    recs: &[DZoomRec],
    segs: &[Seg],
    resolution: u32,
    zero_len_vals: &[f64],
) -> Result<(), String> {
    let mut prev_end: Option<u32> = None;
    let mut covered_by_recs: u64 = 0;
    for (k, r) in recs.iter().enumerate() {
        if r.end < r.start {
            return Err(format!("record {} has end {} < start {}", k, r.end, r.start));
        }
        if r.end == r.start {
            return Err(format!("record {} [{}, {}) is empty", k, r.start, r.end));
        }
        if (r.end - r.start) as u64 > resolution as u64 {
            return Err(format!(
                "record {} [{}, {}) longer than the resolution {}",
                k, r.start, r.end, resolution
            ));
        }
        if let Some(pe) = prev_end {
            if r.start < pe {
                return Err(format!(
                    "record {} [{}, {}) overlaps or precedes the previous one ending at {}",
                    k, r.start, r.end, pe
                ));
            }
        }
        prev_end = Some(r.end);
        let st = stats_in(segs, r.start, r.end);
        if r.valid as u64 != st.bases {
            return Err(format!(
                "record {} [{}, {}): covered bases {} but the data covers {}",
                k, r.start, r.end, r.valid, st.bases
            ));
        }
        covered_by_recs += st.bases;
        if st.bases > 0 {
            // a zero-length value lying inside the record may or may not be counted for min/max (statement is silent)
            let min_ok = r.min as f64 == (st.min as f32) as f64
                || zero_len_vals.iter().any(|z| (*z as f32) == r.min && *z < st.min);
            let max_ok = r.max as f64 == (st.max as f32) as f64
                || zero_len_vals.iter().any(|z| (*z as f32) == r.max && *z > st.max);
            if !min_ok {
                return Err(format!(
                    "record {} [{}, {}): min {} but data min {}",
                    k, r.start, r.end, r.min, st.min
                ));
            }
            if !max_ok {
                return Err(format!(
                    "record {} [{}, {}): max {} but data max {}",
                    k, r.start, r.end, r.max, st.max
                ));
            }
            if !f32_close(r.sum, st.sum, st.abs_sum) {
                return Err(format!(
                    "record {} [{}, {}): sum {} but data sum {}",
                    k, r.start, r.end, r.sum, st.sum
                ));
            }
            if !f32_close(r.sumsq, st.sumsq, st.abs_sumsq) {
                return Err(format!(
                    "record {} [{}, {}): sum of squares {} but data gives {}",
                    k, r.start, r.end, r.sumsq, st.sumsq
                ));
            }
        }
    }
    let total: u64 = segs.iter().map(|g| (g.e - g.s) as u64).sum();
    if covered_by_recs != total {
        return Err(format!(
            "records cover {} bases with data, the chromosome has {}",
            covered_by_recs, total
        ));
    }
    Ok(())
}

//! Independent decoder of the bigWig/bigBed container. Written from the format description
//! (Kent et al. 2010, supplementary tables); shares no code with bigtools: own byte reading, and
//! inflate by miniz_oxide (bigtools links libdeflate).

use crate::model::Item;

pub const BIGWIG_MAGIC: u32 = 0x888F_FC26;
pub const BIGBED_MAGIC: u32 = 0x8789_F2EB;
pub const CIR_MAGIC: u32 = 0x2468_ACE0;
pub const BPT_MAGIC: u32 = 0x78CA_8C91;

#[derive(Clone, Debug)]
pub struct DChrom {
    pub name: String,
    pub id: u32,
    pub len: u32,
}

#[derive(Clone, Debug)]
pub struct DLeaf {
    pub sc: u32,
    pub sb: u32,
    pub ec: u32,
    pub eb: u32,
    pub offset: u64,
    pub size: u64,
}

#[derive(Clone, Debug, Default)]
pub struct DIndex {
    pub offset: u64,
    pub block_size: u32,
    pub item_count: u64,
    pub sc: u32,
    pub sb: u32,
    pub ec: u32,
    pub eb: u32,
    pub end_file_offset: u64,
    pub items_per_slot: u32,
    /// leaves in depth-first (= search) order
    pub leaves: Vec<DLeaf>,
    /// number of levels (1 = root is a leaf node)
    pub levels: usize,
    /// per level (root first): number of nodes and child count of the last node
    pub shape: Vec<(usize, usize)>,
    pub node_count: usize,
}

#[derive(Clone, Debug)]
pub struct DZoomRec {
    pub chrom: u32,
    pub start: u32,
    pub end: u32,
    pub valid: u32,
    pub min: f32,
    pub max: f32,
    pub sum: f32,
    pub sumsq: f32,
}

#[derive(Clone, Debug)]
pub struct DBlock {
    pub chrom: u32,
    pub start: u32,
    pub end: u32,
    pub section_type: u8,
    pub items: Vec<Item>,
    pub inflated_len: usize,
}

#[derive(Clone, Debug, Default)]
pub struct DZoom {
    pub reduction: u32,
    pub data_offset: u64,
    pub index_offset: u64,
    pub index: DIndex,
    /// records per block, blocks in index order
    pub blocks: Vec<Vec<DZoomRec>>,
}

#[derive(Clone, Debug, Default)]
pub struct Decoded {
    pub big_endian: bool,
    pub is_bigwig: bool,
    pub version: u16,
    pub zoom_levels: u16,
    pub chrom_tree_offset: u64,
    pub full_data_offset: u64,
    pub full_index_offset: u64,
    pub field_count: u16,
    pub defined_field_count: u16,
    pub autosql_offset: u64,
    pub total_summary_offset: u64,
    pub uncompress_buf_size: u32,
    pub chroms: Vec<DChrom>,
    pub bpt_block_size: u32,
    pub bpt_key_size: u32,
    pub bpt_item_count: u64,
    pub summary: Option<(u64, f64, f64, f64, f64)>,
    pub data_count: u64,
    pub autosql: Option<String>,
    pub main_index: DIndex,
    pub blocks: Vec<DBlock>,
    pub zooms: Vec<DZoom>,
    /// structural problems found; empty for a well-formed file
    pub problems: Vec<String>,
}

struct Rd<'a> {
    d: &'a [u8],
    be: bool,
}

impl<'a> Rd<'a> {
    fn need(&self, off: u64, n: usize) -> Result<usize, String> {
        let o = off as usize;
        if off > self.d.len() as u64 || o.checked_add(n).map(|e| e > self.d.len()).unwrap_or(true) {
            return Err(format!("read of {} bytes at {} beyond end of file ({})", n, off, self.d.len()));
        }
        Ok(o)
    }
    fn u8(&self, off: u64) -> Result<u8, String> {
        let o = self.need(off, 1)?;
        Ok(self.d[o])
    }
    fn u16(&self, off: u64) -> Result<u16, String> {
        let o = self.need(off, 2)?;
        let b = [self.d[o], self.d[o + 1]];
        Ok(if self.be { u16::from_be_bytes(b) } else { u16::from_le_bytes(b) })
    }
    fn u32(&self, off: u64) -> Result<u32, String> {
        let o = self.need(off, 4)?;
        let b = [self.d[o], self.d[o + 1], self.d[o + 2], self.d[o + 3]];
        Ok(if self.be { u32::from_be_bytes(b) } else { u32::from_le_bytes(b) })
    }
    fn u64(&self, off: u64) -> Result<u64, String> {
        let o = self.need(off, 8)?;
        let mut b = [0u8; 8];
        b.copy_from_slice(&self.d[o..o + 8]);
        Ok(if self.be { u64::from_be_bytes(b) } else { u64::from_le_bytes(b) })
    }
    fn f32(&self, off: u64) -> Result<f32, String> {
        Ok(f32::from_bits(self.u32(off)?))
    }
    fn f64(&self, off: u64) -> Result<f64, String> {
        Ok(f64::from_bits(self.u64(off)?))
    }
}

fn pos_le(c1: u32, b1: u32, c2: u32, b2: u32) -> bool {
    (c1, b1) <= (c2, b2)
}

/// Inflates one zlib stream; requires the stream to end exactly at the end of `raw`.
pub fn inflate_exact(raw: &[u8], cap: usize) -> Result<Vec<u8>, String> {
    use miniz_oxide::inflate::core::{decompress, inflate_flags, DecompressorOxide};
    use miniz_oxide::inflate::TINFLStatus;
    let mut out = vec![0u8; cap + 64];
    let mut dec = DecompressorOxide::new();
    let flags = inflate_flags::TINFL_FLAG_PARSE_ZLIB_HEADER | inflate_flags::TINFL_FLAG_USING_NON_WRAPPING_OUTPUT_BUF;
    let (status, consumed, written) = decompress(&mut dec, raw, &mut out, 0, flags);
    match status {
        TINFLStatus::Done => {}
        TINFLStatus::HasMoreOutput => {
            return Err(format!("inflated data larger than the advertised buffer ({} bytes)", cap));
        }
        s => return Err(format!("not a valid zlib stream: {:?}", s)),
    }
    if consumed != raw.len() {
        return Err(format!("zlib stream ends after {} of {} block bytes", consumed, raw.len()));
    }
    if written > cap {
        return Err(format!("inflated size {} exceeds uncompressBufSize {}", written, cap));
    }
    out.truncate(written);
    Ok(out)
}

fn walk_index(r: &Rd, index_offset: u64, what: &str, problems: &mut Vec<String>) -> Result<DIndex, String> {
    let mut ix = DIndex::default();
    ix.offset = index_offset;
    let magic = r.u32(index_offset)?;
    if magic != CIR_MAGIC {
        return Err(format!("{}: bad R-tree magic {:#x} at {}", what, magic, index_offset));
    }
    ix.block_size = r.u32(index_offset + 4)?;
    ix.item_count = r.u64(index_offset + 8)?;
    ix.sc = r.u32(index_offset + 16)?;
    ix.sb = r.u32(index_offset + 20)?;
    ix.ec = r.u32(index_offset + 24)?;
    ix.eb = r.u32(index_offset + 28)?;
    ix.end_file_offset = r.u64(index_offset + 32)?;
    ix.items_per_slot = r.u32(index_offset + 40)?;
    let root = index_offset + 48;
    // iterative DFS with explicit stack: (offset, depth, parent span)
    struct Frame {
        off: u64,
        depth: usize,
        span: Option<(u32, u32, u32, u32)>,
    }
    let mut stack = vec![Frame {
        off: root,
        depth: 0,
        span: None,
    }];
    let mut per_level: Vec<Vec<usize>> = vec![];
    let mut leaf_depth: Option<usize> = None;
    let mut visited = 0usize;
    while let Some(f) = stack.pop() {
        visited += 1;
        if visited > 5_000_000 {
            return Err(format!("{}: R-tree walk does not terminate", what));
        }
        let isleaf = r.u8(f.off)?;
        let count = r.u16(f.off + 2)? as usize;
        if isleaf > 1 {
            return Err(format!("{}: node at {} has isLeaf={}", what, f.off, isleaf));
        }
        if count == 0 {
            problems.push(format!("{}: node at {} has no children", what, f.off));
        }
        if count > ix.block_size as usize {
            problems.push(format!(
                "{}: node at {} has {} children, more than blockSize {}",
                what, f.off, count, ix.block_size
            ));
        }
        while per_level.len() <= f.depth {
            per_level.push(vec![]);
        }
        per_level[f.depth].push(count);
        let mut prev: Option<(u32, u32)> = None;
        if isleaf == 1 {
            match leaf_depth {
                None => leaf_depth = Some(f.depth),
                Some(d) if d != f.depth => {
                    problems.push(format!("{}: leaves at different depths ({} and {})", what, d, f.depth))
                }
                _ => {}
            }
            for i in 0..count {
                let o = f.off + 4 + 32 * i as u64;
                let leaf = DLeaf {
                    sc: r.u32(o)?,
                    sb: r.u32(o + 4)?,
                    ec: r.u32(o + 8)?,
                    eb: r.u32(o + 12)?,
                    offset: r.u64(o + 16)?,
                    size: r.u64(o + 24)?,
                };
                if !pos_le(leaf.sc, leaf.sb, leaf.ec, leaf.eb) {
                    problems.push(format!("{}: leaf item with start after end at {}", what, o));
                }
                if let Some((c, b)) = prev {
                    if !pos_le(c, b, leaf.sc, leaf.sb) {
                        problems.push(format!("{}: leaf items not sorted by start at {}", what, o));
                    }
                }
                prev = Some((leaf.sc, leaf.sb));
                if let Some((psc, psb, pec, peb)) = f.span {
                    if !(pos_le(psc, psb, leaf.sc, leaf.sb) && pos_le(leaf.ec, leaf.eb, pec, peb)) {
                        problems.push(format!(
                            "{}: leaf item ({},{})-({},{}) at {} not contained in its parent's span ({},{})-({},{})",
                            what, leaf.sc, leaf.sb, leaf.ec, leaf.eb, o, psc, psb, pec, peb
                        ));
                    }
                }
                ix.leaves.push(leaf);
            }
        } else {
            let mut kids = vec![];
            for i in 0..count {
                let o = f.off + 4 + 24 * i as u64;
                let (sc, sb, ec, eb) = (r.u32(o)?, r.u32(o + 4)?, r.u32(o + 8)?, r.u32(o + 12)?);
                let child = r.u64(o + 16)?;
                if !pos_le(sc, sb, ec, eb) {
                    problems.push(format!("{}: node item with start after end at {}", what, o));
                }
                if let Some((c, b)) = prev {
                    if !pos_le(c, b, sc, sb) {
                        problems.push(format!("{}: node items not sorted by start at {}", what, o));
                    }
                }
                prev = Some((sc, sb));
                if let Some((psc, psb, pec, peb)) = f.span {
                    if !(pos_le(psc, psb, sc, sb) && pos_le(ec, eb, pec, peb)) {
                        problems.push(format!(
                            "{}: node item ({},{})-({},{}) at {} not contained in its parent's span ({},{})-({},{})",
                            what, sc, sb, ec, eb, o, psc, psb, pec, peb
                        ));
                    }
                }
                kids.push(Frame {
                    off: child,
                    depth: f.depth + 1,
                    span: Some((sc, sb, ec, eb)),
                });
            }
            // push in reverse so that children are visited left to right
            while let Some(k) = kids.pop() {
                stack.push(k);
            }
        }
    }
    ix.node_count = visited;
    ix.levels = per_level.len();
    // per_level[depth] was filled in DFS order, which is left-to-right within a level
    ix.shape = per_level.iter().map(|v| (v.len(), *v.last().unwrap_or(&0))).collect();
    if ix.item_count != ix.leaves.len() as u64 {
        problems.push(format!(
            "{}: itemCount {} but {} leaf items in the tree",
            what,
            ix.item_count,
            ix.leaves.len()
        ));
    }
    // header bounds must contain everything
    for l in &ix.leaves {
        if !(pos_le(ix.sc, ix.sb, l.sc, l.sb) && pos_le(l.ec, l.eb, ix.ec, ix.eb)) {
            problems.push(format!(
                "{}: index header bounds ({},{})-({},{}) do not contain leaf ({},{})-({},{})",
                what, ix.sc, ix.sb, ix.ec, ix.eb, l.sc, l.sb, l.ec, l.eb
            ));
            break;
        }
    }
    // leaves must be in file order
    for w in ix.leaves.windows(2) {
        if w[1].offset < w[0].offset + w[0].size {
            problems.push(format!(
                "{}: leaves not in file order / overlapping: {}+{} then {}",
                what, w[0].offset, w[0].size, w[1].offset
            ));
            break;
        }
    }
    Ok(ix)
}

fn block_bytes(r: &Rd, leaf: &DLeaf, ubs: u32) -> Result<Vec<u8>, String> {
    let o = r.need(leaf.offset, leaf.size as usize)?;
    let raw = &r.d[o..o + leaf.size as usize];
    if ubs > 0 {
        inflate_exact(raw, ubs as usize)
    } else {
        Ok(raw.to_vec())
    }
}

pub fn decode(d: &[u8]) -> Result<Decoded, String> {
    let mut out = Decoded::default();
    if d.len() < 64 {
        return Err("file shorter than the 64-byte header".into());
    }
    let m_le = u32::from_le_bytes([d[0], d[1], d[2], d[3]]);
    let m_be = u32::from_be_bytes([d[0], d[1], d[2], d[3]]);
    let (be, wig) = if m_le == BIGWIG_MAGIC {
        (false, true)
    } else if m_be == BIGWIG_MAGIC {
        (true, true)
    } else if m_le == BIGBED_MAGIC {
        (false, false)
    } else if m_be == BIGBED_MAGIC {
        (true, false)
    } else {
        return Err(format!("unknown magic {:#x}", m_le));
    };
    let r = Rd { d, be };
    out.big_endian = be;
    out.is_bigwig = wig;
    out.version = r.u16(4)?;
    out.zoom_levels = r.u16(6)?;
    out.chrom_tree_offset = r.u64(8)?;
    out.full_data_offset = r.u64(16)?;
    out.full_index_offset = r.u64(24)?;
    out.field_count = r.u16(32)?;
    out.defined_field_count = r.u16(34)?;
    out.autosql_offset = r.u64(36)?;
    out.total_summary_offset = r.u64(44)?;
    out.uncompress_buf_size = r.u32(52)?;
    let flen = d.len() as u64;
    let mut problems = vec![];

    // trailing magic
    let tail = r.u32(flen - 4)?;
    if tail != if wig { BIGWIG_MAGIC } else { BIGBED_MAGIC } {
        problems.push(format!("trailing magic missing (last word {:#x})", tail));
    }
    for (name, off) in [
        ("chromosomeTreeOffset", out.chrom_tree_offset),
        ("fullDataOffset", out.full_data_offset),
        ("fullIndexOffset", out.full_index_offset),
    ] {
        if off < 64 || off >= flen {
            return Err(format!("{} {} outside the file", name, off));
        }
    }
    if out.full_data_offset >= out.full_index_offset {
        problems.push("fullDataOffset not before fullIndexOffset".into());
    }
    // zoom directory
    let mut zh = vec![];
    for i in 0..out.zoom_levels as u64 {
        let o = 64 + 24 * i;
        zh.push((r.u32(o)?, r.u64(o + 8)?, r.u64(o + 16)?));
    }
    if 64 + 24 * out.zoom_levels as u64 > out.full_data_offset.min(out.chrom_tree_offset) {
        problems.push("zoom directory overlaps data".into());
    }
    for w in zh.windows(2) {
        if w[1].0 <= w[0].0 {
            problems.push(format!("zoom levels not strictly increasing: {} then {}", w[0].0, w[1].0));
        }
    }
    // autosql
    if out.autosql_offset != 0 {
        let o = r.need(out.autosql_offset, 1)?;
        match d[o..].iter().position(|b| *b == 0) {
            Some(n) => match std::str::from_utf8(&d[o..o + n]) {
                Ok(s) => out.autosql = Some(s.to_string()),
                Err(_) => problems.push("autoSql is not UTF-8".into()),
            },
            None => problems.push("autoSql not NUL-terminated".into()),
        }
    }
    if wig && (out.field_count != 0 || out.defined_field_count != 0 || out.autosql_offset != 0) {
        problems.push("bigWig with non-zero fieldCount/definedFieldCount/autoSqlOffset".into());
    }
    // total summary
    if out.total_summary_offset != 0 {
        let o = out.total_summary_offset;
        out.summary = Some((r.u64(o)?, r.f64(o + 8)?, r.f64(o + 16)?, r.f64(o + 24)?, r.f64(o + 32)?));
        if o + 40 > out.full_data_offset && o < out.full_index_offset {
            problems.push("total summary overlaps the data section".into());
        }
    } else if out.version >= 2 {
        problems.push("version >= 2 without a total summary".into());
    }
    out.data_count = r.u64(out.full_data_offset)?;

    // chromosome B+ tree
    let c = out.chrom_tree_offset;
    if r.u32(c)? != BPT_MAGIC {
        return Err(format!("bad chromosome tree magic at {}", c));
    }
    out.bpt_block_size = r.u32(c + 4)?;
    out.bpt_key_size = r.u32(c + 8)?;
    let val_size = r.u32(c + 12)?;
    out.bpt_item_count = r.u64(c + 16)?;
    if val_size != 8 {
        problems.push(format!("chromosome tree valSize {} != 8", val_size));
    }
    let ks = out.bpt_key_size as u64;
    let mut stack = vec![c + 32];
    let mut seen = 0;
    while let Some(off) = stack.pop() {
        seen += 1;
        if seen > 1_000_000 {
            return Err("chromosome tree walk does not terminate".into());
        }
        let isleaf = r.u8(off)?;
        let count = r.u16(off + 2)? as u64;
        if count as u32 > out.bpt_block_size {
            problems.push(format!(
                "chromosome tree node with {} items, blockSize {}",
                count, out.bpt_block_size
            ));
        }
        if isleaf == 1 {
            for i in 0..count {
                let o = off + 4 + i * (ks + 8);
                let ko = r.need(o, ks as usize)?;
                let key = &d[ko..ko + ks as usize];
                let end = key.iter().position(|b| *b == 0).unwrap_or(key.len());
                if key[end..].iter().any(|b| *b != 0) {
                    problems.push("chromosome key not zero-padded".into());
                }
                let name = match std::str::from_utf8(&key[..end]) {
                    Ok(s) => s.to_string(),
                    Err(_) => {
                        problems.push("chromosome key not UTF-8".into());
                        String::from_utf8_lossy(&key[..end]).to_string()
                    }
                };
                out.chroms.push(DChrom {
                    name,
                    id: r.u32(o + ks)?,
                    len: r.u32(o + ks + 4)?,
                });
            }
        } else if isleaf == 0 {
            let mut kids = vec![];
            for i in 0..count {
                let o = off + 4 + i * (ks + 8);
                kids.push(r.u64(o + ks)?);
            }
            kids.reverse();
            stack.extend(kids);
        } else {
            return Err(format!("chromosome tree node with isLeaf={}", isleaf));
        }
    }
    if out.bpt_item_count != out.chroms.len() as u64 {
        problems.push(format!(
            "chromosome tree itemCount {} but {} entries",
            out.bpt_item_count,
            out.chroms.len()
        ));
    }
    {
        let mut ids: Vec<u32> = out.chroms.iter().map(|c| c.id).collect();
        ids.sort();
        for (i, id) in ids.iter().enumerate() {
            if *id != i as u32 {
                problems.push(format!("chromosome ids are not 0..n-1: {:?}", ids));
                break;
            }
        }
        let mut names: Vec<&str> = out.chroms.iter().map(|c| c.name.as_str()).collect();
        names.sort();
        if names.windows(2).any(|w| w[0] == w[1]) {
            problems.push("duplicate chromosome name in the chromosome tree".into());
        }
    }

    // main index + data blocks
    out.main_index = walk_index(&r, out.full_index_offset, "main index", &mut problems)?;
    let nchrom = out.chroms.len() as u32;
    for leaf in &out.main_index.leaves {
        if leaf.offset < out.full_data_offset + 8 || leaf.offset + leaf.size > out.full_index_offset {
            problems.push(format!(
                "data block {}+{} outside the data section [{}, {})",
                leaf.offset,
                leaf.size,
                out.full_data_offset + 8,
                out.full_index_offset
            ));
        }
        if leaf.sc != leaf.ec {
            problems.push(format!("data block {} spans chromosomes {}..{}", leaf.offset, leaf.sc, leaf.ec));
        }
        let bytes = match block_bytes(&r, leaf, out.uncompress_buf_size) {
            Ok(b) => b,
            Err(e) => {
                problems.push(format!("data block at {}: {}", leaf.offset, e));
                continue;
            }
        };
        let br = Rd { d: &bytes, be };
        let mut blk = DBlock {
            chrom: 0,
            start: 0,
            end: 0,
            section_type: 0,
            items: vec![],
            inflated_len: bytes.len(),
        };
        if wig {
            if bytes.len() < 24 {
                problems.push(format!("bigWig section at {} shorter than its header", leaf.offset));
                continue;
            }
            blk.chrom = br.u32(0)?;
            blk.start = br.u32(4)?;
            blk.end = br.u32(8)?;
            let step = br.u32(12)?;
            let span = br.u32(16)?;
            blk.section_type = br.u8(20)?;
            let n = br.u16(22)? as u64;
            let need = match blk.section_type {
                1 => 24 + 12 * n,
                2 => 24 + 8 * n,
                3 => 24 + 4 * n,
                t => {
                    problems.push(format!("bigWig section at {} has unknown type {}", leaf.offset, t));
                    continue;
                }
            };
            if bytes.len() as u64 != need {
                problems.push(format!(
                    "bigWig section at {}: {} bytes for {} items of type {} (expected {})",
                    leaf.offset,
                    bytes.len(),
                    n,
                    blk.section_type,
                    need
                ));
                if (bytes.len() as u64) < need {
                    continue;
                }
            }
            let mut cur = blk.start;
            for i in 0..n {
                let it = match blk.section_type {
                    1 => {
                        let o = 24 + 12 * i;
                        Item::wig(br.u32(o)?, br.u32(o + 4)?, br.f32(o + 8)?)
                    }
                    2 => {
                        let o = 24 + 8 * i;
                        let s = br.u32(o)?;
                        Item::wig(s, s.wrapping_add(span), br.f32(o + 4)?)
                    }
                    _ => {
                        let o = 24 + 4 * i;
                        let s = cur;
                        cur = cur.wrapping_add(step);
                        Item::wig(s, s.wrapping_add(span), br.f32(o)?)
                    }
                };
                blk.items.push(it);
            }
            if n == 0 {
                problems.push(format!("bigWig section at {} holds no items", leaf.offset));
            }
        } else {
            let mut o = 0u64;
            let mut first = true;
            while (o as usize) < bytes.len() {
                if bytes.len() - (o as usize) < 13 {
                    problems.push(format!("bigBed block at {}: trailing garbage / truncated record", leaf.offset));
                    break;
                }
                let cid = br.u32(o)?;
                let s = br.u32(o + 4)?;
                let e = br.u32(o + 8)?;
                let ro = (o + 12) as usize;
                let n = match bytes[ro..].iter().position(|b| *b == 0) {
                    Some(n) => n,
                    None => {
                        problems.push(format!("bigBed block at {}: record without NUL terminator", leaf.offset));
                        break;
                    }
                };
                let rest = match std::str::from_utf8(&bytes[ro..ro + n]) {
                    Ok(s) => s.to_string(),
                    Err(_) => {
                        problems.push(format!("bigBed block at {}: rest is not UTF-8", leaf.offset));
                        String::new()
                    }
                };
                if first {
                    blk.chrom = cid;
                    blk.start = s;
                    first = false;
                } else if cid != blk.chrom {
                    problems.push(format!("bigBed block at {} mixes chromosomes", leaf.offset));
                }
                blk.end = blk.end.max(e);
                blk.items.push(Item::bed(s, e, &rest));
                o = (ro + n + 1) as u64;
            }
            if blk.items.is_empty() {
                problems.push(format!("bigBed block at {} holds no items", leaf.offset));
            }
        }
        if blk.chrom >= nchrom {
            problems.push(format!("block at {} names chromosome id {} (only {} exist)", leaf.offset, blk.chrom, nchrom));
        }
        if blk.chrom != leaf.sc {
            problems.push(format!(
                "block at {}: index says chromosome {}, block says {}",
                leaf.offset, leaf.sc, blk.chrom
            ));
        }
        // index span must contain every item of the block
        for it in &blk.items {
            if it.s < leaf.sb || it.e > leaf.eb {
                problems.push(format!(
                    "block at {}: item [{}, {}) outside the span [{}, {}) its index entry advertises",
                    leaf.offset, it.s, it.e, leaf.sb, leaf.eb
                ));
                break;
            }
        }
        if wig {
            for it in &blk.items {
                if it.s < blk.start || it.e > blk.end {
                    problems.push(format!(
                        "bigWig section at {}: item [{}, {}) outside section header [{}, {})",
                        leaf.offset, it.s, it.e, blk.start, blk.end
                    ));
                    break;
                }
            }
        }
        if out.main_index.items_per_slot > 0 && blk.items.len() as u64 > out.main_index.items_per_slot as u64 {
            problems.push(format!(
                "block at {} holds {} items, more than itemsPerSlot {}",
                leaf.offset,
                blk.items.len(),
                out.main_index.items_per_slot
            ));
        }
        out.blocks.push(blk);
    }
    if let Some(last) = out.main_index.leaves.last() {
        let end = last.offset + last.size;
        if out.main_index.end_file_offset < end || out.main_index.end_file_offset > out.full_index_offset {
            problems.push(format!(
                "main index endFileOffset {} not between end of data {} and the index {}",
                out.main_index.end_file_offset, end, out.full_index_offset
            ));
        }
    }

    // zoom levels
    for (reduction, data_off, index_off) in zh {
        let mut z = DZoom {
            reduction,
            data_offset: data_off,
            index_offset: index_off,
            ..Default::default()
        };
        if data_off >= index_off || index_off >= flen {
            problems.push(format!("zoom {}: offsets {} / {} inconsistent", reduction, data_off, index_off));
            out.zooms.push(z);
            continue;
        }
        let what = format!("zoom {} index", reduction);
        match walk_index(&r, index_off, &what, &mut problems) {
            Ok(ix) => z.index = ix,
            Err(e) => {
                problems.push(e);
                out.zooms.push(z);
                continue;
            }
        }
        for leaf in &z.index.leaves {
            if leaf.offset < data_off || leaf.offset + leaf.size > index_off {
                problems.push(format!(
                    "zoom {} block {}+{} outside its data section [{}, {})",
                    reduction, leaf.offset, leaf.size, data_off, index_off
                ));
            }
            let bytes = match block_bytes(&r, leaf, out.uncompress_buf_size) {
                Ok(b) => b,
                Err(e) => {
                    problems.push(format!("zoom {} block at {}: {}", reduction, leaf.offset, e));
                    z.blocks.push(vec![]);
                    continue;
                }
            };
            if bytes.len() % 32 != 0 || bytes.is_empty() {
                problems.push(format!(
                    "zoom {} block at {}: {} bytes is not a positive multiple of 32",
                    reduction,
                    leaf.offset,
                    bytes.len()
                ));
            }
            let br = Rd { d: &bytes, be };
            let mut recs = vec![];
            for i in 0..(bytes.len() / 32) as u64 {
                let o = 32 * i;
                recs.push(DZoomRec {
                    chrom: br.u32(o)?,
                    start: br.u32(o + 4)?,
                    end: br.u32(o + 8)?,
                    valid: br.u32(o + 12)?,
                    min: br.f32(o + 16)?,
                    max: br.f32(o + 20)?,
                    sum: br.f32(o + 24)?,
                    sumsq: br.f32(o + 28)?,
                });
            }
            if z.index.items_per_slot > 0 && recs.len() as u64 > z.index.items_per_slot as u64 {
                problems.push(format!(
                    "zoom {} block at {} holds {} records, more than itemsPerSlot {}",
                    reduction,
                    leaf.offset,
                    recs.len(),
                    z.index.items_per_slot
                ));
            }
            for rec in &recs {
                if rec.chrom != leaf.sc || leaf.sc != leaf.ec {
                    problems.push(format!("zoom {} block at {} mixes chromosomes", reduction, leaf.offset));
                    break;
                }
                if rec.start < leaf.sb || rec.end > leaf.eb {
                    problems.push(format!(
                        "zoom {} block at {}: record [{}, {}) outside the span [{}, {}) of its index entry",
                        reduction, leaf.offset, rec.start, rec.end, leaf.sb, leaf.eb
                    ));
                    break;
                }
            }
            z.blocks.push(recs);
        }
        if let Some(last) = z.index.leaves.last() {
            let end = last.offset + last.size;
            if z.index.end_file_offset < end || z.index.end_file_offset > index_off {
                problems.push(format!(
                    "zoom {} index endFileOffset {} not between end of data {} and the index {}",
                    reduction, z.index.end_file_offset, end, index_off
                ));
            }
        }
        out.zooms.push(z);
    }
    out.problems = problems;
    Ok(out)
}

impl Decoded {
    /// Records per chromosome id, in file (= index) order.
    pub fn records_by_chrom(&self) -> std::collections::BTreeMap<u32, Vec<Item>> {
        let mut m: std::collections::BTreeMap<u32, Vec<Item>> = Default::default();
        for b in &self.blocks {
            m.entry(b.chrom).or_default().extend(b.items.iter().cloned());
        }
        m
    }
    pub fn chrom_by_name(&self, name: &str) -> Option<&DChrom> {
        self.chroms.iter().find(|c| c.name == name)
    }
}

//! C18 (slicing a text input: FileView histories, index_chroms, size-based chunking) and the
//! parser-totality half of C19. The only nondeterminism/fault dimensions here are the operation
//! history of a `FileView` and resource exhaustion (address-space cap + watchdog of the worker
//! process); the index/chunk/parser sub-claims are pure functions of their input and are labelled so.

use std::io::{Read, Seek, SeekFrom, Write};

use serde::{Deserialize, Serialize};

use bigtools::utils::file_view::FileView;

use crate::checks::{viol, Verdict};
use crate::pipesim::panic_message;
use crate::report::{RunReport, RunStats};
use crate::rng::Rng;

// ------------------------------------------------------------------------------------ FileView

#[derive(Clone, Debug, PartialEq, Serialize, Deserialize)]
pub enum VOp {
    Read(usize),
    Start(u64),
    Current(i64),
    End(i64),
}

#[derive(Clone, Debug, PartialEq, Serialize, Deserialize)]
pub struct ViewCase {
    pub file_len: usize,
    pub a: u64,
    pub b: u64,
    pub ops: Vec<VOp>,
    /// history of the handle before the view gets it: position it was left at by earlier reads/seeks (0 = fresh)
    #[serde(default)]
    pub pre: u64,
}

#[derive(Clone, Debug, PartialEq, Serialize, Deserialize)]
pub struct LineSpec {
    pub chrom: String,
    /// number of padding characters in the rest column (line length pattern)
    pub pad: usize,
}

#[derive(Clone, Debug, PartialEq, Serialize, Deserialize)]
pub struct IndexCase {
    pub lines: Vec<LineSpec>,
    pub final_newline: bool,
    pub bedgraph: bool,
}

#[derive(Clone, Debug, PartialEq, Serialize, Deserialize)]
pub enum TextCase {
    View(ViewCase),
    Index(IndexCase),
    Chunks(IndexCase),
}

fn file_byte(i: usize) -> u8 {
    (crate::rng::mix(i as u64, 77) % 251) as u8
}

pub fn gen_view(rng: &mut Rng) -> ViewCase {
    let file_len = match rng.below(5) {
        0 => rng.below(4) as usize,
        1 => rng.range(1, 30) as usize,
        _ => rng.range(10, 300) as usize,
    };
    let a = if rng.chance(1, 2) { 0 } else { rng.below(file_len as u64 + 1) };
    let b = match rng.below(4) {
        0 => file_len as u64 + rng.below(20),
        1 => u64::MAX,
        _ => a + rng.below(file_len as u64 - a + 1),
    };
    let n = rng.range(1, 14) as usize;
    let span = file_len as i64 + 10;
    let mut ops = vec![];
    for _ in 0..n {
        ops.push(match rng.below(8) {
            0..=2 => VOp::Read(rng.below(60) as usize),
            3 => VOp::Read(0),
            4 => VOp::Start(rng.below(span as u64 + 5)),
            5 => VOp::Current(rng.range(0, 2 * span as u64) as i64 - span),
            6 => VOp::End(-(rng.below(2 * span as u64) as i64)),
            _ => VOp::End(rng.below(10) as i64),
        });
    }
    let pre = if rng.chance(1, 2) { rng.below(file_len as u64 + 6) } else { 0 };
    ViewCase { file_len, a, b, ops, pre }
}

fn scratch_file(bytes: &[u8]) -> tempfile::NamedTempFile {
    let mut f = tempfile::NamedTempFile::new().expect("scratch file");
    f.write_all(bytes).expect("scratch write");
    f.flush().expect("scratch flush");
    f
}

pub fn run_view(vc: &ViewCase) -> Verdict {
    let bytes: Vec<u8> = (0..vc.file_len).map(file_byte).collect();
    let tmp = scratch_file(&bytes);
    let res = std::panic::catch_unwind(std::panic::AssertUnwindSafe(|| -> Result<(), (String, String)> {
        let mut f = std::fs::File::open(tmp.path()).map_err(|e| ("harness".to_string(), e.to_string()))?;
        if vc.pre > 0 {
            // the handle has a past (the parallel paths hand over handles that indexing or chunking already used)
            use std::io::{Read, Seek, SeekFrom};
            let back = vc.pre.min(3);
            f.seek(SeekFrom::Start(vc.pre - back)).map_err(|e| ("harness".to_string(), e.to_string()))?;
            let mut scratch = vec![0u8; back as usize];
            let _ = f.read(&mut scratch);
        }
        let mut view = FileView::new(f, vc.a, vc.b).map_err(|e| ("view-error".to_string(), format!("new: {}", e)))?;
        // reference model: the range in isolation, seeks clamp into it
        let lo = vc.a as usize;
        let hi = (vc.b.min(vc.file_len as u64) as usize).max(lo);
        let window = &bytes[lo..hi];
        let l = window.len() as i64;
        let mut pos: i64 = 0;
        for (k, op) in vc.ops.iter().enumerate() {
            match op {
                VOp::Read(n) => {
                    let mut buf = vec![0u8; *n];
                    let got = view.read(&mut buf).map_err(|e| ("view-error".to_string(), format!("op {} read: {}", k, e)))?;
                    let avail = (l - pos) as usize;
                    // a single read may legally return fewer bytes than asked, but never 0 while data remains and n > 0
                    if got > (*n).min(avail) || (got == 0 && *n > 0 && avail > 0) {
                        return Err((
                            "view-read-length".into(),
                            format!("op {} {:?}: returned {} bytes, window has {} left", k, op, got, avail),
                        ));
                    }
                    if buf[..got] != window[pos as usize..pos as usize + got] {
                        return Err((
                            "view-read-bytes".into(),
                            format!("op {} {:?} at window offset {}: wrong bytes", k, op, pos),
                        ));
                    }
                    pos += got as i64;
                }
                VOp::Start(s) => {
                    let want = (*s as i64).min(l);
                    let got = view
                        .seek(SeekFrom::Start(*s))
                        .map_err(|e| ("view-error".to_string(), format!("op {} seek: {}", k, e)))?;
                    if got as i64 != want {
                        return Err(("view-seek".into(), format!("op {} {:?}: returned {}, expected {}", k, op, got, want)));
                    }
                    pos = want;
                }
                VOp::Current(d) => {
                    let want = (pos + d).max(0).min(l);
                    let got = view
                        .seek(SeekFrom::Current(*d))
                        .map_err(|e| ("view-error".to_string(), format!("op {} seek: {}", k, e)))?;
                    if got as i64 != want {
                        return Err(("view-seek".into(), format!("op {} {:?} from {}: returned {}, expected {}", k, op, pos, got, want)));
                    }
                    pos = want;
                }
                VOp::End(d) => {
                    let want = (l + (*d).min(0)).max(0);
                    let got = view
                        .seek(SeekFrom::End(*d))
                        .map_err(|e| ("view-error".to_string(), format!("op {} seek: {}", k, e)))?;
                    if got as i64 != want {
                        return Err(("view-seek".into(), format!("op {} {:?}: returned {}, expected {}", k, op, got, want)));
                    }
                    pos = want;
                }
            }
        }
        Ok(())
    }));
    match res {
        Ok(Ok(())) => Verdict::Pass,
        Ok(Err((c, d))) if c == "harness" => Verdict::Skip(format!("HARNESS: {}", d)),
        Ok(Err((c, d))) => viol(&c, d),
        Err(p) => viol("view-panic", panic_message(p)),
    }
}

// ------------------------------------------------------------------------ index_chroms / chunks

const CHROMS: &[&str] = &["chr1", "chr10", "chr2", "chrX", "a", "ab", "Z", "scaffold_9"];

pub fn gen_index(rng: &mut Rng) -> IndexCase {
    let nruns = match rng.below(6) {
        0 => 1,
        1 => 2,
        _ => rng.range(2, 7),
    } as usize;
    let grouped = rng.chance(4, 5);
    let mut names: Vec<&str> = vec![];
    while names.len() < nruns {
        let n = *rng.pick(CHROMS);
        if !names.contains(&n) {
            names.push(n);
        }
    }
    if !grouped && nruns >= 2 {
        // repeat an earlier chromosome in a later, non-adjacent run
        let k = rng.below(nruns as u64 - 1) as usize;
        names.push(names[k]);
        if names[names.len() - 2] == names[names.len() - 1] {
            names.pop();
        }
    }
    let long_at = if rng.chance(1, 2) { Some(rng.below(40)) } else { None };
    let mut lines = vec![];
    let mut counter = 0u64;
    for name in names {
        let n = match rng.below(5) {
            0 => 1,
            1 => 2,
            _ => rng.range(1, 12),
        };
        for _ in 0..n {
            let pad = if Some(counter) == long_at {
                if rng.chance(1, 4) {
                    // longer than any buffered reader's capacity
                    rng.range(8_200, 20_000) as usize
                } else {
                    rng.range(200, 3000) as usize
                }
            } else {
                match rng.below(4) {
                    0 => 0,
                    1 => rng.below(5) as usize,
                    _ => rng.below(40) as usize,
                }
            };
            lines.push(LineSpec {
                chrom: name.to_string(),
                pad,
            });
            counter += 1;
        }
    }
    IndexCase {
        lines,
        final_newline: rng.chance(3, 4),
        bedgraph: rng.chance(1, 2),
    }
}

pub fn index_text(ic: &IndexCase) -> String {
    let mut s = String::new();
    let mut pos = 0u32;
    let mut last = "";
    for (k, l) in ic.lines.iter().enumerate() {
        if l.chrom != last {
            pos = 0;
            last = &l.chrom;
        }
        let start = pos;
        let end = pos + 5;
        pos += 7;
        if ic.bedgraph {
            // value column padded with zeros after the decimal point
            s.push_str(&format!("{}\t{}\t{}\t1.{}", l.chrom, start, end, "0".repeat(l.pad.max(1))));
        } else if l.pad == 0 {
            s.push_str(&format!("{}\t{}\t{}", l.chrom, start, end));
        } else if l.pad % 3 == 1 {
            // multi-byte characters: probe offsets may fall inside one
            s.push_str(&format!("{}\t{}\t{}\t{}", l.chrom, start, end, "é名".repeat((l.pad + 4) / 5)));
        } else {
            s.push_str(&format!("{}\t{}\t{}\t{}", l.chrom, start, end, "x".repeat(l.pad)));
        }
        if k + 1 < ic.lines.len() || ic.final_newline {
            s.push('\n');
        }
    }
    s
}

fn linear_index(text: &str) -> (Vec<(u64, String)>, bool) {
    let mut out: Vec<(u64, String)> = vec![];
    let mut off = 0u64;
    for line in text.split_inclusive('\n') {
        let chrom = line.split('\t').next().unwrap_or("").trim_end().to_string();
        if out.last().map(|l| l.1 != chrom).unwrap_or(true) {
            out.push((off, chrom));
        }
        off += line.len() as u64;
    }
    let mut names: Vec<&String> = out.iter().map(|x| &x.1).collect();
    names.sort();
    let grouped = names.windows(2).all(|w| w[0] != w[1]);
    (out, grouped)
}

pub fn run_index(ic: &IndexCase) -> Verdict {
    let text = index_text(ic);
    let tmp = scratch_file(text.as_bytes());
    let (want, grouped) = linear_index(&text);
    let res = std::panic::catch_unwind(|| {
        let f = std::fs::File::open(tmp.path()).expect("open scratch");
        bigtools::bed::indexer::index_chroms(f)
    });
    match res {
        Err(p) => viol("index-panic", panic_message(p)),
        Ok(Err(e)) => {
            if text.is_empty() {
                Verdict::Pass
            } else {
                viol("index-error", format!("index_chroms failed on a well-formed file: {}", e))
            }
        }
        Ok(Ok(Some(ix))) => {
            if grouped {
                if ix != want {
                    viol("index-wrong", format!("grouped file: index {:?}, linear scan {:?}", ix, want))
                } else {
                    Verdict::Pass
                }
            } else {
                // not grouped: at least every reported offset must be a line start of that chromosome
                let starts: std::collections::BTreeMap<u64, String> = {
                    let mut m = std::collections::BTreeMap::new();
                    let mut off = 0u64;
                    for line in text.split_inclusive('\n') {
                        m.insert(off, line.split('\t').next().unwrap_or("").to_string());
                        off += line.len() as u64;
                    }
                    m
                };
                for (off, chrom) in &ix {
                    if starts.get(off) != Some(chrom) {
                        return viol(
                            "index-wrong",
                            format!("non-grouped file: reported offset {} for {} is not a line start of it", off, chrom),
                        );
                    }
                }
                Verdict::Pass
            }
        }
        Ok(Ok(None)) => {
            if grouped {
                viol("index-wrong", format!("grouped file reported as not grouped; linear scan {:?}", want))
            } else {
                Verdict::Pass
            }
        }
    }
}

pub fn run_chunks(ic: &IndexCase) -> Verdict {
    let text = index_text(ic);
    let tmp = scratch_file(text.as_bytes());
    let nlines = ic.lines.len() as u64;
    let len = text.len() as u64;
    for chunks in 1..=nlines + 2 {
        let res = std::panic::catch_unwind(|| {
            let f = std::fs::File::open(tmp.path()).expect("open scratch");
            bigtools::utils::split_file_into_chunks_by_size(f, chunks)
        });
        let v = match res {
            Err(p) => return viol("chunk-panic", format!("chunks={}: {}", chunks, panic_message(p))),
            Ok(Err(e)) => return viol("chunk-error", format!("chunks={}: {}", chunks, e)),
            Ok(Ok(v)) => v,
        };
        let mut expect_start = 0u64;
        for (s, e) in &v {
            if *s != expect_start {
                return viol(
                    "chunk-cover",
                    format!("chunks={}: chunk starts at {} but the previous one ended at {} ({:?})", chunks, s, expect_start, v),
                );
            }
            if e < s || *e > len {
                return viol("chunk-cover", format!("chunks={}: bad chunk ({}, {}) in {:?}", chunks, s, e, v));
            }
            let is_line_start = |p: u64| p == 0 || p == len || text.as_bytes()[p as usize - 1] == b'\n';
            if !is_line_start(*s) || !is_line_start(*e) {
                return viol(
                    "chunk-cut",
                    format!("chunks={}: chunk ({}, {}) is not cut at line starts ({:?})", chunks, s, e, v),
                );
            }
            expect_start = *e;
        }
        if expect_start != len {
            return viol(
                "chunk-cover",
                format!("chunks={}: chunks end at {} but the file has {} bytes ({:?})", chunks, expect_start, len, v),
            );
        }
    }
    Verdict::Pass
}

pub fn gen_text_case(rng: &mut Rng) -> TextCase {
    match rng.below(10) {
        0..=4 => TextCase::View(gen_view(rng)),
        5..=7 => TextCase::Index(gen_index(rng)),
        _ => TextCase::Chunks(gen_index(rng)),
    }
}

pub fn run_text_case(tc: &TextCase) -> RunReport {
    let mut st = RunStats::default();
    let (verdict, nontrivial) = match tc {
        TextCase::View(v) => {
            *st.counters.entry("fileview_histories".into()).or_insert(0) += 1;
            *st.counters.entry("fileview_ops".into()).or_insert(0) += v.ops.len() as u64;
            st.steps = v.ops.len() as u64;
            if v.a > 0 {
                st.classes.push("view:window_not_at_file_start".into());
            }
            if v.b > v.file_len as u64 {
                st.classes.push("view:window_past_eof".into());
            }
            (run_view(v), v.ops.len() >= 2)
        }
        TextCase::Index(i) => {
            *st.counters.entry("index_files(pure, no schedule/fault dimension)".into()).or_insert(0) += 1;
            if i.lines.iter().any(|l| l.pad >= 200) {
                st.classes.push("index:very_long_line".into());
            }
            if !i.final_newline {
                st.classes.push("index:no_final_newline".into());
            }
            (run_index(i), i.lines.len() >= 2)
        }
        TextCase::Chunks(i) => {
            *st.counters.entry("chunk_files(pure, no schedule/fault dimension)".into()).or_insert(0) += 1;
            (run_chunks(i), i.lines.len() >= 2)
        }
    };
    st.trace_hash = crate::rng::hash_bytes(&serde_json::to_vec(tc).unwrap());
    RunReport {
        verdict,
        nontrivial,
        stats: st,
    }
}

pub fn shrink_text(tc: &TextCase) -> Vec<TextCase> {
    let mut out = vec![];
    match tc {
        TextCase::View(v) => {
            for k in 0..v.ops.len() {
                let mut n = v.clone();
                n.ops.remove(k);
                out.push(TextCase::View(n));
            }
            if v.file_len > 1 {
                let mut n = v.clone();
                n.file_len /= 2;
                n.a = n.a.min(n.file_len as u64);
                n.b = n.b.max(n.a);
                out.push(TextCase::View(n));
            }
        }
        TextCase::Index(i) | TextCase::Chunks(i) => {
            let wrap = |x: IndexCase| match tc {
                TextCase::Index(_) => TextCase::Index(x),
                _ => TextCase::Chunks(x),
            };
            for k in 0..i.lines.len() {
                if i.lines.len() > 1 {
                    let mut n = i.clone();
                    n.lines.remove(k);
                    out.push(wrap(n));
                }
            }
            for k in 0..i.lines.len() {
                if i.lines[k].pad > 0 {
                    let mut n = i.clone();
                    n.lines[k].pad /= 2;
                    out.push(wrap(n));
                }
            }
        }
    }
    out
}

// ------------------------------------------------------------------------------- autoSql parser

#[derive(Clone, Debug, PartialEq, Serialize, Deserialize)]
pub struct SqlCase {
    pub texts: Vec<String>,
    /// texts that the generator emitted as complete schemas (must parse) carry `true`
    pub must_parse: Vec<bool>,
}

const TYPES: &[&str] = &[
    "int", "uint", "short", "ushort", "byte", "ubyte", "float", "double", "char", "string", "lstring", "bigint",
];

pub fn gen_schema_tokens(rng: &mut Rng, nfields: usize) -> Vec<String> {
    let mut t: Vec<String> = vec![];
    let decl = *rng.pick(&["table", "simple", "object"]);
    t.push(decl.into());
    t.push(format!("name{}", rng.below(100)));
    if rng.chance(1, 5) {
        t.push(rng.pick(&["primary", "index", "unique"]).to_string());
    }
    t.push("\"a comment\"".into());
    t.push("(".into());
    for i in 0..nfields {
        match rng.below(10) {
            0 => {
                let kw = *rng.pick(&["enum", "set"]);
                t.push(kw.into());
                t.push("(".into());
                let n = rng.range(1, 4);
                for k in 0..n {
                    t.push(format!("v{}", k));
                    if k + 1 < n {
                        t.push(",".into());
                    }
                }
                t.push(")".into());
            }
            _ => {
                t.push(rng.pick(TYPES).to_string());
                if rng.chance(1, 4) {
                    t.push("[".into());
                    t.push(if rng.chance(1, 2) { format!("{}", rng.range(1, 20)) } else { "count".to_string() });
                    t.push("]".into());
                }
            }
        }
        // field names are free text for the parser: now and then one that starts with a multi-byte character
        t.push(if rng.chance(1, 10) { format!("\u{394}f{}", i) } else { format!("f{}", i) });
        if rng.chance(1, 6) {
            match rng.below(3) {
                0 => t.push("primary".into()),
                1 => {
                    t.push("index".into());
                    if rng.chance(1, 2) {
                        t.push("[".into());
                        t.push("12".into());
                        t.push("]".into());
                    }
                }
                _ => t.push("unique".into()),
            }
        }
        if rng.chance(1, 8) {
            t.push("auto".into());
        }
        t.push(";".into());
        t.push(format!("\"field {}\"", i));
    }
    t.push(")".into());
    t
}

fn join_tokens(rng: &mut Rng, toks: &[String]) -> String {
    let mut s = String::new();
    for t in toks {
        s.push_str(t);
        s.push_str(*rng.pick(&[" ", "\n", "\t", "  ", " \n  "]));
    }
    s
}

const ALPHABET: &[&str] = &["(", ")", "[", "]", ",", ";", "\"", " ", "a", "\u{e9}"];

pub fn gen_sql(rng: &mut Rng, idx: u64) -> SqlCase {
    let mut texts = vec![];
    let mut must = vec![];
    match idx % 4 {
        0 => {
            // complete schemas + all truncations at token boundaries
            let nf = rng.range(1, 8) as usize;
            let toks = gen_schema_tokens(rng, nf);
            texts.push(join_tokens(rng, &toks));
            must.push(true);
            for k in 0..toks.len() {
                texts.push(join_tokens(rng, &toks[..k]));
                must.push(false);
            }
        }
        1 => {
            // single-token mutations
            let nf = rng.range(1, 6) as usize;
            let toks = gen_schema_tokens(rng, nf);
            for _ in 0..30 {
                let mut m = toks.clone();
                let k = rng.below(m.len() as u64) as usize;
                match rng.below(4) {
                    0 => {
                        m.remove(k);
                    }
                    1 => {
                        let d = m[k].clone();
                        m.insert(k, d);
                    }
                    2 => m[k] = rng.pick(&["(", ")", "[", "]", ",", ";", "\"", "enum", "set", "table", "int", "", "\u{394}x", "\u{e9}", "\u{540d}\u{524d}"]).to_string(),
                    _ => {
                        let j = rng.below(m.len() as u64) as usize;
                        m.swap(k, j);
                    }
                }
                texts.push(join_tokens(rng, &m));
                must.push(false);
            }
        }
        2 => {
            // generator of the tool: every schema bed_autosql emits must parse
            for n in 0..=40usize {
                let rest: Vec<String> = (0..n).map(|i| format!("c{}", i)).collect();
                texts.push(bigtools::bed::autosql::bed_autosql(&rest.join("\t")));
                must.push(true);
            }
        }
        _ => {
            // short strings over the delimiter alphabet: a contiguous block of the enumeration
            let block = (idx / 4) % 3704;
            let base = ALPHABET.len() as u64;
            for j in 0..300u64 {
                let mut n = block * 300 + j;
                // mixed-radix: length 0..6 then digits
                let mut len = 0usize;
                let mut count = 1u64;
                while n >= count && len < 6 {
                    n -= count;
                    count *= base;
                    len += 1;
                }
                let mut s = String::new();
                for _ in 0..len {
                    s.push_str(ALPHABET[(n % base) as usize]);
                    n /= base;
                }
                let pre = *rng.pick(&["", "", "table t \"c\" ( ", "table t \"c\" ( enum", "table t \"c\" ( int x; \"\" "]);
                texts.push(format!("{}{}", pre, s));
                must.push(false);
            }
        }
    }
    SqlCase { texts, must_parse: must }
}

/// Address-space cap around the parser only: current virtual size + 1 GiB as the soft RLIMIT_AS, lifted again
/// when the batch is done (the cap must not hit the CLI cases that share the worker process).
struct AsCap;
impl AsCap {
    fn new(extra: u64) -> AsCap {
        let vm_pages = std::fs::read_to_string("/proc/self/statm")
            .ok()
            .and_then(|s| s.split_whitespace().next().and_then(|x| x.parse::<u64>().ok()))
            .unwrap_or(0);
        unsafe {
            let mut lim = libc::rlimit { rlim_cur: 0, rlim_max: 0 };
            libc::getrlimit(libc::RLIMIT_AS, &mut lim);
            lim.rlim_cur = vm_pages * 4096 + extra;
            if lim.rlim_max != libc::RLIM_INFINITY && lim.rlim_cur > lim.rlim_max {
                lim.rlim_cur = lim.rlim_max;
            }
            libc::setrlimit(libc::RLIMIT_AS, &lim);
        }
        AsCap
    }
}
impl Drop for AsCap {
    fn drop(&mut self) {
        unsafe {
            let mut lim = libc::rlimit { rlim_cur: 0, rlim_max: 0 };
            libc::getrlimit(libc::RLIMIT_AS, &mut lim);
            lim.rlim_cur = lim.rlim_max;
            libc::setrlimit(libc::RLIMIT_AS, &lim);
        }
    }
}

pub fn run_sql(sc: &SqlCase) -> RunReport {
    let mut st = RunStats::default();
    let mut verdict = Verdict::Pass;
    let _cap = AsCap::new(1 << 30);
    for (k, text) in sc.texts.iter().enumerate() {
        *st.counters.entry("parser_inputs".into()).or_insert(0) += 1;
        let res = std::panic::catch_unwind(|| bigtools::bed::autosql::parse::parse_autosql(text).map(|d| d.len()));
        match res {
            Err(p) => {
                verdict = viol("parser-panic", format!("input {:?}: {}", text, panic_message(p)));
                break;
            }
            Ok(Ok(_)) => {
                *st.counters.entry("parser_ok".into()).or_insert(0) += 1;
            }
            Ok(Err(_)) => {
                *st.counters.entry("parser_err".into()).or_insert(0) += 1;
                if sc.must_parse.get(k).copied().unwrap_or(false) {
                    verdict = viol("generated-schema-rejected", format!("a generated schema does not parse: {:?}", text));
                    break;
                }
            }
        }
    }
    st.trace_hash = crate::rng::hash_bytes(&serde_json::to_vec(&sc.texts).unwrap());
    st.faults.insert("F9_address_space_cap_and_watchdog_armed".into(), 1);
    RunReport {
        verdict,
        nontrivial: sc.texts.len() >= 2,
        stats: st,
    }
}

pub fn shrink_sql(sc: &SqlCase) -> Vec<SqlCase> {
    let mut out = vec![];
    let n = sc.texts.len();
    if n > 1 {
        for (a, b) in [(0, n / 2), (n / 2, n)] {
            out.push(SqlCase {
                texts: sc.texts[a..b].to_vec(),
                must_parse: sc.must_parse[a..b].to_vec(),
            });
        }
        if n <= 8 {
            for k in 0..n {
                out.push(SqlCase {
                    texts: vec![sc.texts[k].clone()],
                    must_parse: vec![sc.must_parse[k]],
                });
            }
        }
    } else if n == 1 {
        let t = &sc.texts[0];
        // shorten the single input
        let chars: Vec<char> = t.chars().collect();
        if chars.len() > 1 {
            for (a, b) in [(0, chars.len() / 2), (chars.len() / 2, chars.len()), (1, chars.len()), (0, chars.len() - 1)] {
                out.push(SqlCase {
                    texts: vec![chars[a..b].iter().collect()],
                    must_parse: vec![false],
                });
            }
        }
    }
    out
}

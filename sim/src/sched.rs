//! The seeded scheduler (decision function behind bigtools' `verif::yield_point`) and `SimSource`,
//! the simulator's own `BBIDataSource`.

use std::collections::{BTreeMap, VecDeque};
use std::sync::{Arc, Mutex};

use bigtools::{BBIDataProcessor, BBIDataSource, BBIProcessError, ProcessDataError};
use tokio::runtime::Runtime;

use crate::model::Sched;
use crate::rng::{mix, Rng};

pub struct SchedState {
    mode: Sched,
    rng: Rng,
    pos: usize,
    pub trace: Vec<u16>,
    pub trace_hash: u64,
    pub sites: BTreeMap<&'static str, u64>,
    pub steps: u64,
    pub nonzero: u64,
    pub yields: u64,
    stall_at: Vec<(u64, u16)>,
    slow_salt: u64,
    /// cap on recorded trace length (explicit replay beyond it answers 0)
    cap: usize,
    /// multi-thread (uncontrolled) run: synchronous sites perturb with OS-level yields
    pub uncontrolled: bool,
}

fn site_hash(site: &str) -> u64 {
    crate::rng::hash_bytes(site.as_bytes())
}

impl SchedState {
    pub fn new(mode: &Sched) -> SchedState {
        let (rng, stall_at, slow_salt) = match mode {
            Sched::Seeded { policy, seed } => {
                let mut r = Rng::new(*seed);
                let mut stall = vec![];
                if *policy == 2 {
                    let d = 1 + r.below(3);
                    for _ in 0..d {
                        let horizon = *r.pick(&[20u64, 60, 200, 800, 3000]);
                        stall.push((r.below(horizon), 30 + r.below(170) as u16));
                    }
                }
                let salt = r.next_u64();
                (r, stall, salt)
            }
            _ => (Rng::new(0), vec![], 0),
        };
        SchedState {
            mode: mode.clone(),
            rng,
            pos: 0,
            trace: Vec::new(),
            trace_hash: 0x1234_5678,
            sites: BTreeMap::new(),
            steps: 0,
            nonzero: 0,
            yields: 0,
            stall_at,
            slow_salt,
            cap: 200_000,
            uncontrolled: false,
        }
    }

    pub fn decide(&mut self, site: &'static str) -> u32 {
        if site.starts_with("tfb.") && !self.uncontrolled {
            // synchronous probe sites inside the staging buffer: on the single-threaded runtime they cannot
            // change the interleaving, and they also fire while the runtime is shut down (task cancellation
            // order is not schedule-controlled), so they are counted but neither consume decisions nor
            // enter the schedule trace
            *self.sites.entry(site).or_insert(0) += 1;
            return 0;
        }
        let step = self.steps;
        self.steps += 1;
        *self.sites.entry(site).or_insert(0) += 1;
        let n: u16 = match &self.mode {
            Sched::Calm => 0,
            Sched::Explicit(v) => {
                let n = v.get(self.pos).copied().unwrap_or(0);
                self.pos += 1;
                n
            }
            Sched::Seeded { policy, .. } => match policy {
                0 => {
                    if self.rng.below(100) < 5 {
                        1
                    } else {
                        0
                    }
                }
                1 => self.rng.below(4) as u16,
                2 => {
                    let mut n = if self.rng.below(100) < 8 { 1 } else { 0 };
                    for (at, burst) in &self.stall_at {
                        if *at == step {
                            n = *burst;
                        }
                    }
                    n
                }
                _ => {
                    // site-biased: a seeded subset of sites is "slow" for the whole run
                    let h = mix(site_hash(site), self.slow_salt);
                    if h % 3 == 0 {
                        1 + self.rng.below(1 + (h >> 8) % 6) as u16
                    } else if self.rng.below(100) < 3 {
                        1
                    } else {
                        0
                    }
                }
            },
        };
        if self.trace.len() < self.cap {
            self.trace.push(n);
        }
        self.trace_hash = mix(self.trace_hash, site_hash(site) ^ (n as u64) << 1);
        if n > 0 {
            self.nonzero += 1;
            self.yields += n as u64;
        }
        n as u32
    }
}

pub type SharedSched = Arc<Mutex<SchedState>>;

/// Installs the decision function for one run.
pub fn install(mode: &Sched) -> SharedSched {
    let st = Arc::new(Mutex::new(SchedState::new(mode)));
    let st2 = st.clone();
    bigtools::verif::install(Some(Arc::new(move |site| {
        st2.lock().unwrap_or_else(|e| e.into_inner()).decide(site)
    })));
    st
}

pub fn uninstall() {
    bigtools::verif::install(None);
    bigtools::verif::install_runtime(None);
}

pub fn current_thread_runtime() -> Runtime {
    tokio::runtime::Builder::new_current_thread()
        .build()
        .expect("runtime")
}

#[derive(Debug)]
pub struct SimSourceError(pub String);
impl std::fmt::Display for SimSourceError {
    fn fmt(&self, f: &mut std::fmt::Formatter<'_>) -> std::fmt::Result {
        write!(f, "{}", self.0)
    }
}
impl std::error::Error for SimSourceError {}

/// The simulator's own data source: up to `inflight` chromosomes are processed by concurrently
/// spawned tasks; the scheduler decides after every value whether the task yields.
pub struct SimSource<V> {
    pub chroms: Vec<(String, Vec<V>)>,
    pub inflight: usize,
    /// yield an error item instead of the value at (chrom index, item index)
    pub error_at: Option<(usize, usize)>,
}

impl<V: Clone + Send + Sync + 'static> BBIDataSource for SimSource<V> {
    type Value = V;
    type Error = SimSourceError;

    fn process_to_bbi<
        P: BBIDataProcessor<Value = Self::Value> + Send + 'static,
        StartProcessing: FnMut(String) -> Result<P, ProcessDataError>,
        Advance: FnMut(P),
    >(
        &mut self,
        runtime: &Runtime,
        start_processing: &mut StartProcessing,
        advance: &mut Advance,
    ) -> Result<(), BBIProcessError<Self::Error>> {
        let mut queue: VecDeque<
            tokio::task::JoinHandle<Result<P, BBIProcessError<SimSourceError>>>,
        > = VecDeque::new();
        let mut next = 0usize;
        let inflight = self.inflight.max(1);
        loop {
            while next < self.chroms.len() && queue.len() < inflight {
                let (name, vals) = self.chroms[next].clone();
                let err_at = match self.error_at {
                    Some((c, i)) if c == next => Some(i),
                    _ => None,
                };
                let mut p = start_processing(name)?;
                let handle = runtime.spawn(async move {
                    bigtools::verif::yield_point("simsource.task_start").await;
                    for i in 0..vals.len() {
                        if err_at == Some(i) {
                            return Err(BBIProcessError::SourceError(SimSourceError(
                                "injected source error".to_string(),
                            )));
                        }
                        bigtools::verif::yield_point("simsource.before_value").await;
                        let v = vals[i].clone();
                        p.do_process(v, vals.get(i + 1)).await?;
                    }
                    if err_at == Some(vals.len()) {
                        return Err(BBIProcessError::SourceError(SimSourceError(
                            "injected source error".to_string(),
                        )));
                    }
                    Ok(p)
                });
                queue.push_back(handle);
                next += 1;
            }
            let Some(h) = queue.pop_front() else {
                break;
            };
            let p = match runtime.block_on(h) {
                Ok(r) => r?,
                Err(e) => std::panic::resume_unwind(e.into_panic()),
            };
            advance(p);
        }
        Ok(())
    }
}

//! tfbsim (C12): the staging buffer `TempFileBuffer` under (1) a one-thread call-interleaving
//! simulator over its public API with the real primitives, and (2) shuttle schedules over the same
//! source file compiled against shuttle's Mutex/Condvar (separate crate `tfbshuttle`, run as a
//! subprocess so that its cfg flags do not leak into this build).

use std::io::Write;

use serde::{Deserialize, Serialize};

use bigtools::utils::tempfilebuffer::{TempFileBuffer, TempFileBufferWriter};

use crate::checks::{viol, Verdict};
use crate::model::SinkFaults;
use crate::pipesim::panic_message;
use crate::report::{RunReport, RunStats};
use crate::rng::{mix, Rng};
use crate::sink::SimSink;

#[derive(Clone, Debug, PartialEq, Serialize, Deserialize)]
pub enum Consumer {
    /// switch (at some point), then await_real_file once the producer is done
    SwitchAwait,
    /// switch, poll is_real_file_ready at every consumer step, then await_real_file
    SwitchPollAwait,
    /// never switch: len() then expect_closed_write() on the closed buffer
    LenThenCopy,
    /// switch only after the producer dropped, then await_real_file
    LateSwitchAwait,
}

#[derive(Clone, Debug, PartialEq, Serialize, Deserialize)]
pub struct TfbCase {
    pub inmemory: bool,
    /// sizes of the producer's writes
    pub writes: Vec<usize>,
    /// producer flushes after these write indices
    pub flush_after: Vec<usize>,
    pub consumer: Consumer,
    /// who moves next: true = consumer, false = producer; consumed in order, then producer-first
    pub schedule: Vec<bool>,
    pub sink: SinkFaults,
}

#[derive(Clone, Debug, PartialEq, Serialize, Deserialize)]
pub struct ShuttleCase {
    pub seed: u64,
    pub iters: u64,
    /// "random" | "pct"
    pub scheduler: String,
    /// explicit shuttle schedule (replay)
    #[serde(default)]
    pub schedule: Option<String>,
}

pub fn byte_at(i: u64) -> u8 {
    (mix(i, 0x5eed) & 0xff) as u8
}

pub fn gen_tfb(rng: &mut Rng) -> TfbCase {
    let k = rng.below(9) as usize;
    let mut writes = vec![];
    for _ in 0..k {
        writes.push(match rng.below(10) {
            0 => 0,
            1 => 1,
            2 => 2,
            3 => rng.range(3, 100) as usize,
            4 => 8192,
            5 => 9_999,
            6 => 10_000,
            7 => 10_001,
            8 => rng.range(100, 20_000) as usize,
            _ => rng.range(1, 3000) as usize,
        });
    }
    let mut flush_after = vec![];
    for i in 0..k {
        if rng.chance(1, 5) {
            flush_after.push(i);
        }
    }
    let consumer = match rng.below(8) {
        0..=2 => Consumer::SwitchAwait,
        3..=4 => Consumer::SwitchPollAwait,
        5..=6 => Consumer::LenThenCopy,
        _ => Consumer::LateSwitchAwait,
    };
    let n = 2 * k + 8;
    let bias = rng.below(5);
    let schedule = (0..n)
        .map(|_| match bias {
            0 => rng.chance(1, 2),
            1 => rng.chance(1, 6),
            2 => rng.chance(5, 6),
            _ => rng.chance(1, 3),
        })
        .collect();
    TfbCase {
        inmemory: rng.chance(1, 2),
        writes,
        flush_after,
        consumer,
        schedule,
        sink: if rng.chance(1, 2) {
            SinkFaults {
                short_pm: *rng.pick(&[100u16, 500]),
                eintr_pm: *rng.pick(&[0u16, 0, 200]),
                seed: rng.next_u64(),
                fail: None,
                commit_on_flush: false,
            }
        } else {
            SinkFaults::default()
        },
    }
}

struct Producer {
    w: Option<TempFileBufferWriter<SimSink>>,
    idx: usize,
    off_in_write: usize,
    global: u64,
    done: bool,
}

pub fn run_tfb(case: &TfbCase) -> RunReport {
    let mut st = RunStats::default();
    let _ = bigtools::verif::take_probes();
    let res = std::panic::catch_unwind(std::panic::AssertUnwindSafe(|| run_tfb_inner(case, &mut st)));
    for (k, v) in bigtools::verif::take_probes() {
        *st.probes.entry(k.to_string()).or_insert(0) += v;
    }
    let verdict = match res {
        Ok(v) => v,
        Err(p) => viol("panic", panic_message(p)),
    };
    st.trace_hash = crate::rng::hash_bytes(&serde_json::to_vec(&(&case.schedule, &case.consumer, case.inmemory)).unwrap());
    RunReport {
        verdict,
        nontrivial: !case.writes.is_empty(),
        stats: st,
    }
}

fn run_tfb_inner(case: &TfbCase, st: &mut RunStats) -> Verdict {
    let (buf, writer): (TempFileBuffer<SimSink>, TempFileBufferWriter<SimSink>) = TempFileBuffer::new(case.inmemory);
    let mut buf = Some(buf);
    let dest = SimSink::new(&case.sink, false);
    let mut spare_dest = Some(dest.clone());
    let mut prod = Producer {
        w: Some(writer),
        idx: 0,
        off_in_write: 0,
        global: 0,
        done: false,
    };
    let total: u64 = case.writes.iter().map(|n| *n as u64).sum();
    let mut switched = false;
    let mut consumer_done = false;
    let mut polls = 0u64;
    let mut switch_pos: Option<u64> = None;
    let mut sched = case.schedule.iter();
    let mut steps = 0u64;
    let mut len_seen: Option<u64> = None;
    let mut final_sink: Option<SimSink> = None;
    // producer step: one public call (`write`, `flush`, or the drop)
    let mut producer_step = |prod: &mut Producer| -> Result<(), String> {
        if prod.done {
            return Ok(());
        }
        if prod.idx >= case.writes.len() {
            prod.w = None; // drop: closes the buffer
            prod.done = true;
            return Ok(());
        }
        let size = case.writes[prod.idx];
        let w = prod.w.as_mut().unwrap();
        if prod.off_in_write < size {
            let chunk: Vec<u8> = (prod.off_in_write..size).map(|i| byte_at(prod.global + (i - prod.off_in_write) as u64)).collect();
            match w.write(&chunk) {
                Ok(n) => {
                    prod.off_in_write += n;
                    prod.global += n as u64;
                }
                Err(e) if e.kind() == std::io::ErrorKind::Interrupted => {}
                Err(e) => return Err(format!("producer write failed: {}", e)),
            }
        } else if size == 0 && prod.off_in_write == 0 {
            match w.write(&[]) {
                Ok(_) => prod.off_in_write = usize::MAX,
                Err(e) => return Err(format!("producer empty write failed: {}", e)),
            }
        }
        if prod.off_in_write >= size {
            if case.flush_after.contains(&prod.idx) {
                loop {
                    match w.flush() {
                        Ok(()) => break,
                        Err(e) if e.kind() == std::io::ErrorKind::Interrupted => continue,
                        Err(e) => return Err(format!("producer flush failed: {}", e)),
                    }
                }
            }
            prod.idx += 1;
            prod.off_in_write = 0;
        }
        Ok(())
    };
    loop {
        steps += 1;
        if steps > 100_000 {
            return viol("no-progress", "interleaving simulator exceeded its step bound".into());
        }
        if prod.done && consumer_done {
            break;
        }
        let want_consumer = sched.next().copied().unwrap_or(false);
        // consumer enabledness
        let ready = buf.as_ref().map(|b| b.is_real_file_ready()).unwrap_or(false);
        let consumer_enabled = !consumer_done
            && match case.consumer {
                Consumer::SwitchAwait | Consumer::SwitchPollAwait => !switched || ready || matches!(case.consumer, Consumer::SwitchPollAwait),
                Consumer::LenThenCopy => ready,
                Consumer::LateSwitchAwait => prod.done,
            };
        let run_consumer = (want_consumer && consumer_enabled) || prod.done;
        if run_consumer && !consumer_done {
            if !consumer_enabled {
                return viol(
                    "not-ready-after-drop",
                    "producer dropped but is_real_file_ready() is false: waiting would never return".into(),
                );
            }
            match case.consumer {
                Consumer::SwitchAwait | Consumer::SwitchPollAwait | Consumer::LateSwitchAwait => {
                    if !switched {
                        buf.as_mut().unwrap().switch(spare_dest.take().unwrap());
                        switched = true;
                        switch_pos = Some(prod.global);
                    } else if ready {
                        let s = buf.take().unwrap().await_real_file();
                        final_sink = Some(s);
                        consumer_done = true;
                    } else {
                        polls += 1; // SwitchPollAwait: one readiness poll
                    }
                }
                Consumer::LenThenCopy => {
                    if len_seen.is_none() {
                        match buf.as_ref().unwrap().len() {
                            Ok(n) => len_seen = Some(n),
                            Err(e) => return viol("len-error", format!("len(): {}", e)),
                        }
                    } else {
                        let mut d = spare_dest.take().unwrap();
                        // expect_closed_write copies with io::copy / write_all which handle EINTR and short writes
                        if let Err(e) = buf.take().unwrap().expect_closed_write(&mut d) {
                            return viol("copy-error", format!("expect_closed_write: {}", e));
                        }
                        final_sink = Some(d);
                        consumer_done = true;
                    }
                }
            }
        } else if !prod.done {
            if let Err(e) = producer_step(&mut prod) {
                return viol("producer-error", e);
            }
        }
    }
    st.steps = steps;
    *st.counters.entry("consumer_polls".into()).or_insert(0) += polls;
    if let Some(p) = switch_pos {
        let class = if p == 0 {
            "switch_before_first_byte"
        } else if p >= total {
            "switch_after_last_byte"
        } else {
            "switch_mid_stream"
        };
        st.classes.push(format!("{}:{}", if case.inmemory { "inmemory" } else { "tempfile" }, class));
    } else {
        st.classes.push(format!("{}:never_switched", if case.inmemory { "inmemory" } else { "tempfile" }));
    }
    if let Some(n) = len_seen {
        if n != total {
            return viol("len-mismatch", format!("len() = {} but {} bytes were written", n, total));
        }
    }
    let (image, _ops, counts, _) = final_sink.as_ref().unwrap_or(&dest).snapshot();
    if counts.short_writes > 0 {
        st.faults.insert("F1_short_write".into(), counts.short_writes);
    }
    if counts.eintr_writes > 0 {
        st.faults.insert("F2_eintr_write".into(), counts.eintr_writes);
    }
    if image.len() as u64 != total {
        return viol(
            "bytes-lost-or-duplicated",
            format!("destination holds {} bytes, {} were written (switch at byte {:?})", image.len(), total, switch_pos),
        );
    }
    for (i, b) in image.iter().enumerate() {
        if *b != byte_at(i as u64) {
            return viol(
                "bytes-out-of-order",
                format!("destination differs from the written stream at offset {} (switch at byte {:?})", i, switch_pos),
            );
        }
    }
    Verdict::Pass
}

pub fn shrink_tfb(c: &TfbCase) -> Vec<TfbCase> {
    let mut out = vec![];
    let mut push = |f: &dyn Fn(&mut TfbCase)| {
        let mut n = c.clone();
        f(&mut n);
        if n != *c {
            out.push(n);
        }
    };
    push(&|n| n.sink = SinkFaults::default());
    push(&|n| n.flush_after.clear());
    for k in 0..c.writes.len() {
        push(&move |n| {
            n.writes.remove(k);
            n.flush_after.retain(|i| *i < n.writes.len());
        });
    }
    for k in 0..c.writes.len() {
        push(&move |n| n.writes[k] = n.writes[k] / 2);
        push(&move |n| n.writes[k] = n.writes[k].min(1));
    }
    push(&|n| {
        while n.schedule.last() == Some(&false) {
            n.schedule.pop();
        }
    });
    for k in 0..c.schedule.len() {
        push(&move |n| {
            n.schedule.remove(k);
        });
    }
    out
}

fn shuttle_bin() -> std::path::PathBuf {
    match std::env::var("VERIF_SHUTTLE_BIN") {
        Ok(p) => std::path::PathBuf::from(p),
        Err(_) => crate::driver::root().join("target-shuttle/release/tfbshuttle"),
    }
}

/// Runs a batch of shuttle schedules in the `tfbshuttle` binary.
pub fn run_shuttle(case: &ShuttleCase) -> RunReport {
    let mut st = RunStats::default();
    let bin = shuttle_bin();
    if !bin.exists() {
        return RunReport {
            verdict: Verdict::Skip(format!("HARNESS: {} not built", bin.display())),
            nontrivial: false,
            stats: st,
        };
    }
    let mut cmd = std::process::Command::new(&bin);
    cmd.arg("--seed").arg(case.seed.to_string());
    cmd.arg("--iters").arg(case.iters.to_string());
    cmd.arg("--scheduler").arg(&case.scheduler);
    // the encoded schedule can be long: hand it over in a file, not on the command line
    let sched_file = tempfile::NamedTempFile::new().ok();
    if let (Some(s), Some(f)) = (&case.schedule, &sched_file) {
        let _ = std::fs::write(f.path(), s);
        cmd.arg("--replay-file").arg(f.path());
    }
    let out = match cmd.output() {
        Ok(o) => o,
        Err(e) => {
            return RunReport {
                verdict: Verdict::Skip(format!("HARNESS: cannot run tfbshuttle: {}", e)),
                nontrivial: false,
                stats: st,
            }
        }
    };
    let stdout = String::from_utf8_lossy(&out.stdout).to_string();
    let mut verdict = Verdict::Skip("HARNESS: tfbshuttle produced no verdict".into());
    for line in stdout.lines() {
        if let Some(rest) = line.strip_prefix("OK ") {
            verdict = Verdict::Pass;
            for kv in rest.split_whitespace() {
                if let Some((k, v)) = kv.split_once('=') {
                    if let Ok(n) = v.parse::<u64>() {
                        *st.counters.entry(format!("shuttle_{}", k)).or_insert(0) += n;
                        if k == "steps" {
                            st.steps = n;
                        }
                    }
                }
            }
        } else if let Some(rest) = line.strip_prefix("PROBE ") {
            let mut it = rest.split_whitespace();
            if let (Some(k), Some(v)) = (it.next(), it.next().and_then(|v| v.parse::<u64>().ok())) {
                *st.probes.entry(format!("shuttle:{}", k)).or_insert(0) += v;
            }
        } else if let Some(rest) = line.strip_prefix("FAIL ") {
            if rest.contains("msg=invalid schedule") {
                // the pinned schedule could not be decoded: not a finding about the code under test
                verdict = Verdict::Skip("schedule not decodable".into());
            } else {
                verdict = viol("shuttle-failure", rest.to_string());
            }
        }
    }
    st.trace_hash = mix(case.seed, case.iters);
    RunReport {
        verdict,
        nontrivial: true,
        stats: st,
    }
}

/// After a shuttle failure: pin the failing schedule into the case so that the replay file is exact.
pub fn explicit_shuttle(case: &ShuttleCase) -> ShuttleCase {
    if case.schedule.is_some() {
        return case.clone();
    }
    let rep = run_shuttle(case);
    if let Verdict::Violation { detail, .. } = rep.verdict {
        if let Some(pos) = detail.find("schedule=") {
            let s = detail[pos + 9..].split_whitespace().next().unwrap_or("").to_string();
            if !s.is_empty() {
                let mut n = case.clone();
                n.schedule = Some(s);
                n.iters = 1;
                return n;
            }
        }
    }
    case.clone()
}

//! Local PRNGs: SplitMix64 for seeding, xoshiro256** for streams. No external dependency so the
//! mapping seed -> execution can never change underneath the replay files.

#[derive(Clone, Debug)]
pub struct SplitMix64(pub u64);

impl SplitMix64 {
    pub fn next(&mut self) -> u64 {
        self.0 = self.0.wrapping_add(0x9E37_79B9_7F4A_7C15);
        let mut z = self.0;
        z = (z ^ (z >> 30)).wrapping_mul(0xBF58_476D_1CE4_E5B9);
        z = (z ^ (z >> 27)).wrapping_mul(0x94D0_49BB_1331_11EB);
        z ^ (z >> 31)
    }
}

#[derive(Clone, Debug)]
pub struct Rng {
    s: [u64; 4],
}

impl Rng {
    pub fn new(seed: u64) -> Rng {
        let mut sm = SplitMix64(seed);
        Rng {
            s: [sm.next(), sm.next(), sm.next(), sm.next()],
        }
    }

    /// Independent stream for (seed, run index, purpose).
    pub fn derive(seed: u64, run: u64, purpose: &str) -> Rng {
        // seed and run index are mixed one after the other (never XORed together: that would make a
        // different seed merely permute the run indices)
        let mut h = mix(0xA076_1D64_78BD_642F, seed);
        h = mix(h.rotate_left(17) ^ 0x9E37_79B9_7F4A_7C15, run);
        for b in purpose.bytes() {
            h = mix(h, b as u64);
        }
        Rng::new(h)
    }

    pub fn next_u64(&mut self) -> u64 {
        let r = self.s[1].wrapping_mul(5).rotate_left(7).wrapping_mul(9);
        let t = self.s[1] << 17;
        self.s[2] ^= self.s[0];
        self.s[3] ^= self.s[1];
        self.s[1] ^= self.s[2];
        self.s[0] ^= self.s[3];
        self.s[2] ^= t;
        self.s[3] = self.s[3].rotate_left(45);
        r
    }

    pub fn next_u32(&mut self) -> u32 {
        (self.next_u64() >> 32) as u32
    }

    /// Uniform in [0, n). n must be > 0.
    pub fn below(&mut self, n: u64) -> u64 {
        debug_assert!(n > 0);
        // multiply-shift; bias negligible for the sizes used here
        ((self.next_u64() as u128 * n as u128) >> 64) as u64
    }

    /// Uniform in [lo, hi] inclusive.
    pub fn range(&mut self, lo: u64, hi: u64) -> u64 {
        if hi <= lo {
            return lo;
        }
        lo + self.below(hi - lo + 1)
    }

    pub fn chance(&mut self, num: u64, den: u64) -> bool {
        self.below(den) < num
    }

    pub fn pick<'a, T>(&mut self, xs: &'a [T]) -> &'a T {
        &xs[self.below(xs.len() as u64) as usize]
    }

    pub fn f64(&mut self) -> f64 {
        (self.next_u64() >> 11) as f64 / (1u64 << 53) as f64
    }
}

pub fn mix(h: u64, v: u64) -> u64 {
    let mut z = (h ^ v).wrapping_mul(0xFF51_AFD7_ED55_8CCD);
    z ^= z >> 33;
    z = z.wrapping_mul(0xC4CE_B9FE_1A85_EC53);
    z ^ (z >> 29)
}

/// FNV-1a/mix style 64-bit hash of bytes (stable across runs and platforms).
pub fn hash_bytes(data: &[u8]) -> u64 {
    let mut h: u64 = 0xcbf2_9ce4_8422_2325;
    for chunk in data.chunks(8) {
        let mut v = 0u64;
        for (i, b) in chunk.iter().enumerate() {
            v |= (*b as u64) << (8 * i);
        }
        h = mix(h, v ^ (chunk.len() as u64) << 56);
    }
    mix(h, data.len() as u64)
}

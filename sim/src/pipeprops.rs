//! C11 (byte-identical output under every schedule/buffering/source variant), C13 (refusal and
//! termination) and C14 (crash-point and failing-sink enumeration) on top of pipesim.

use std::sync::Arc;

use serde::{Deserialize, Serialize};

use bigtools::{BigBedRead, BigWigRead};

use crate::checks::{self, viol, Verdict};
use crate::decode;
use crate::gen::{self, Profile};
use crate::model::*;
use crate::pipesim::{self, panic_message, WriteOutcome, WriteResult};
use crate::report::{RunReport, RunStats};
use crate::rng::{hash_bytes, Rng};
use crate::sink::{image_after, Op, SimRead};

// ------------------------------------------------------------------------------------------- C11

#[derive(Clone, Debug, PartialEq, Serialize, Deserialize)]
pub struct Variant {
    pub source: Source,
    pub channel_size: usize,
    pub inmemory: bool,
    pub sched: Sched,
    pub sink: SinkFaults,
    pub mt_threads: u8,
}

#[derive(Clone, Debug, PartialEq, Serialize, Deserialize)]
pub struct MultiCase {
    pub base: PipeCase,
    pub variants: Vec<Variant>,
}

pub fn reference_of(base: &PipeCase) -> PipeCase {
    let mut r = base.clone();
    r.source = Source::SerialIter;
    r.opts.inmemory = true;
    r.opts.channel_size = 100;
    r.sched = Sched::Calm;
    r.sink = SinkFaults::default();
    r.mt_threads = 0;
    r
}

pub fn apply_variant(base: &PipeCase, v: &Variant) -> PipeCase {
    let mut c = base.clone();
    c.source = v.source.clone();
    c.opts.channel_size = v.channel_size;
    c.opts.inmemory = v.inmemory;
    c.sched = v.sched.clone();
    c.sink = v.sink.clone();
    c.mt_threads = v.mt_threads;
    c
}

pub fn gen_c11(rng: &mut Rng, tier: &str) -> MultiCase {
    let mut p = Profile::default();
    p.zero_len_pm = 20;
    p.bed_zero_zero_pm = 0;
    p.max_items = 300;
    let mut base = gen::gen_pipe_case(rng, &p);
    // several chromosomes matter here
    if base.chroms.len() < 2 && rng.chance(3, 4) {
        let mut extra = gen::gen_pipe_case(rng, &Profile { kind: Some(base.kind), ..p.clone() });
        for (i, mut c) in extra.chroms.drain(..).enumerate() {
            if !base.chroms.iter().any(|b| b.name == c.name) {
                c.name = format!("{}{}", c.name, if base.opts.sort_all { "z" } else { "" });
                let _ = i;
                base.chroms.push(c);
            }
        }
        if base.opts.sort_all {
            base.chroms.sort_by(|a, b| a.name.cmp(&b.name));
        }
        base.chroms.dedup_by(|a, b| a.name == b.name);
    }
    base.bad = None;
    let nvar = if tier == "thorough" { rng.range(3, 7) } else { rng.range(3, 5) };
    let mut variants = vec![];
    for _ in 0..nvar {
        let source = match rng.below(8) {
            0 => Source::SerialIter,
            1 => Source::SerialText,
            2 | 3 => Source::ParallelFile,
            _ => Source::Sim {
                inflight: rng.range(1, 5) as u8,
            },
        };
        let mt = if rng.chance(1, 12) { rng.range(1, 16) as u8 } else { 0 };
        variants.push(Variant {
            source,
            channel_size: *rng.pick(&[0usize, 1, 100]),
            inmemory: rng.chance(1, 2),
            sched: if rng.chance(5, 6) {
                Sched::Seeded {
                    policy: rng.below(4) as u8,
                    seed: rng.next_u64(),
                }
            } else {
                Sched::Calm
            },
            sink: if rng.chance(1, 3) {
                SinkFaults {
                    short_pm: *rng.pick(&[100u16, 400]),
                    eintr_pm: *rng.pick(&[0u16, 200]),
                    seed: rng.next_u64(),
                    fail: None,
                    commit_on_flush: false,
                }
            } else {
                SinkFaults::default()
            },
            mt_threads: mt,
        });
    }
    MultiCase { base, variants }
}

fn merge_stats(st: &mut RunStats, case: &PipeCase, out: &WriteOutcome) {
    if case.mt_threads > 0 {
        st.uncontrolled = true;
    }
    if case.mt_threads == 0 {
        st.steps += out.steps;
        st.nonzero_decisions += out.nonzero_decisions;
        st.trace_hash = crate::rng::mix(st.trace_hash, out.trace_hash);
    }
    st.sink_ops += out.ops.len() as u64;
    st.outcome_hash = crate::rng::mix(st.outcome_hash, hash_bytes(&out.image));
    let mut f = |k: &str, v: u64| {
        if v > 0 {
            *st.faults.entry(k.to_string()).or_insert(0) += v;
        }
    };
    f("F1_short_write", out.counts.short_writes);
    f("F2_eintr_write", out.counts.eintr_writes);
    f("F5_failed_op", out.counts.failed_ops);
    for (k, v) in &out.probes {
        if case.mt_threads == 0 {
            *st.probes.entry(k.to_string()).or_insert(0) += *v;
        } else {
            // real threads: which staging state a redirect finds is not schedule-controlled
            *st.counters.entry(format!("uncontrolled_probe:{}", k)).or_insert(0) += *v;
        }
    }
    let src = match &case.source {
        Source::SerialIter => "source:serial_iter".to_string(),
        Source::SerialText => "source:serial_text".to_string(),
        Source::ParallelFile => "source:parallel_file".to_string(),
        Source::Sim { inflight } => format!("source:sim_inflight_{}", inflight),
    };
    *st.counters.entry(src).or_insert(0) += 1;
    if case.mt_threads > 0 {
        *st.counters.entry("uncontrolled_runs(multi_thread_runtime)".into()).or_insert(0) += 1;
    } else {
        *st.counters.entry("controlled_runs".into()).or_insert(0) += 1;
    }
}

pub fn run_c11(mc: &MultiCase) -> RunReport {
    let mut st = RunStats::default();
    let reference = reference_of(&mc.base);
    let ref_out = pipesim::run_write(&reference, false);
    merge_stats(&mut st, &reference, &ref_out);
    let nontrivial = crate::props::sections_of(&mc.base) >= 2 && mc.base.chroms.len() >= 2;
    if ref_out.result != WriteResult::Ok {
        let v = match &ref_out.result {
            WriteResult::Panic(p) => viol("write-panic", format!("reference run panicked: {}", p)),
            WriteResult::Err(e) if checks::is_plain(&mc.base) => {
                viol("refused-valid-input", format!("reference run refused: {}", e))
            }
            _ => Verdict::Skip("reference run not accepted".into()),
        };
        return RunReport {
            verdict: v,
            nontrivial,
            stats: st,
        };
    }
    let ref_hash = hash_bytes(&ref_out.image);
    for (k, v) in mc.variants.iter().enumerate() {
        let c = apply_variant(&mc.base, v);
        let out = pipesim::run_write(&c, false);
        merge_stats(&mut st, &c, &out);
        if out.nonzero_decisions > 0 || out.counts.short_writes + out.counts.eintr_writes > 0 {
            *st.counters.entry("variants_with_perturbation".into()).or_insert(0) += 1;
        }
        let verdict = match &out.result {
            WriteResult::Ok => {
                if hash_bytes(&out.image) != ref_hash || out.image != ref_out.image {
                    let first = out
                        .image
                        .iter()
                        .zip(ref_out.image.iter())
                        .position(|(a, b)| a != b)
                        .unwrap_or(out.image.len().min(ref_out.image.len()));
                    Some(viol(
                        if v.mt_threads > 0 { "bytes-differ-uncontrolled" } else { "bytes-differ" },
                        format!(
                            "variant {} ({:?}, channel {}, inmemory {}, mt {}): {} bytes vs reference {} bytes, first difference at offset {}",
                            k,
                            v.source,
                            v.channel_size,
                            v.inmemory,
                            v.mt_threads,
                            out.image.len(),
                            ref_out.image.len(),
                            first
                        ),
                    ))
                } else {
                    None
                }
            }
            WriteResult::Err(e) => Some(viol(
                "variant-refused",
                format!("variant {} ({:?}) refused what the reference accepted: {}", k, v.source, e),
            )),
            WriteResult::Panic(p) => Some(viol(
                "variant-panic",
                format!("variant {} ({:?}) panicked: {}", k, v.source, p),
            )),
        };
        if let Some(v) = verdict {
            return RunReport {
                verdict: v,
                nontrivial,
                stats: st,
            };
        }
    }
    RunReport {
        verdict: Verdict::Pass,
        nontrivial,
        stats: st,
    }
}

pub fn shrink_c11(mc: &MultiCase) -> Vec<MultiCase> {
    let mut out = vec![];
    if mc.variants.len() > 1 {
        for k in 0..mc.variants.len() {
            let mut n = mc.clone();
            n.variants = vec![mc.variants[k].clone()];
            out.push(n);
        }
    }
    for (k, v) in mc.variants.iter().enumerate() {
        let mut push = |f: &dyn Fn(&mut Variant)| {
            let mut nv = v.clone();
            f(&mut nv);
            if nv != *v {
                let mut n = mc.clone();
                n.variants[k] = nv;
                out.push(n);
            }
        };
        push(&|x| x.sched = Sched::Calm);
        push(&|x| x.sink = SinkFaults::default());
        push(&|x| x.mt_threads = 0);
        push(&|x| x.channel_size = 100);
        push(&|x| x.inmemory = true);
        push(&|x| x.source = Source::Sim { inflight: 1 });
        push(&|x| x.source = Source::SerialIter);
        if let Sched::Explicit(t) = &v.sched {
            let len = t.len();
            for (a, b) in [(0, len / 2), (len / 2, len), (0, len / 4), (len / 4, len / 2), (len / 2, len * 3 / 4), (len * 3 / 4, len)] {
                let t2: Vec<u16> = t
                    .iter()
                    .enumerate()
                    .map(|(i, x)| if i >= a && i < b { 0 } else { *x })
                    .collect();
                push(&move |x| x.sched = Sched::Explicit(t2.clone()));
            }
        }
    }
    for b in crate::props::shrink_pipe(&mc.base) {
        // keep the reference-defining fields of the base untouched by variant-irrelevant shrinks
        let mut n = mc.clone();
        n.base = b;
        out.push(n);
    }
    out
}

pub fn explicit_c11(mc: &MultiCase) -> MultiCase {
    let mut n = mc.clone();
    for (k, v) in mc.variants.iter().enumerate() {
        if matches!(v.sched, Sched::Seeded { .. }) && v.mt_threads == 0 {
            let c = apply_variant(&mc.base, v);
            let out = pipesim::run_write(&c, false);
            n.variants[k].sched = Sched::Explicit(out.trace);
        }
    }
    n
}

// ------------------------------------------------------------------------------------------- C13

pub fn gen_c13(rng: &mut Rng) -> PipeCase {
    let mut p = Profile::default();
    p.max_items = 120;
    p.io_chaos = false;
    p.zero_len_pm = 150;
    let mut case = gen::gen_pipe_case(rng, &p);
    case.read = ReadFaults::default();
    let roll = rng.below(10);
    if roll < 7 {
        // plant a bad record
        let kinds: Vec<BadKind> = {
            let mut k = vec![BadKind::OutOfOrder, BadKind::StartAfterEnd, BadKind::BeyondChrom, BadKind::UnknownChrom, BadKind::Empty];
            if case.kind == Kind::Wig {
                k.push(BadKind::Overlap);
            }
            if case.opts.sort_all && case.chroms.len() >= 2 && !matches!(case.source, Source::Sim { .. }) {
                k.push(BadKind::ChromOrder);
                k.push(BadKind::ChromOrder);
            }
            match case.source {
                Source::SerialText | Source::ParallelFile => {
                    k.push(BadKind::Malformed);
                    k.push(BadKind::Malformed);
                    if case.source == Source::SerialText {
                        k.push(BadKind::ReadError);
                    }
                }
                Source::SerialIter | Source::Sim { .. } => {
                    k.push(BadKind::SourceError);
                }
            }
            k
        };
        let kind = rng.pick(&kinds).clone();
        let nc = case.chroms.len();
        let chrom = match rng.below(3) {
            0 => 0,
            1 => nc / 2,
            _ => nc - 1,
        };
        let ni = case.chroms[chrom].items.len();
        let item = match rng.below(4) {
            0 => 0,
            1 => ni / 2,
            2 => ni - 1,
            _ => rng.below(ni as u64) as usize,
        };
        case.bad = Some(Bad { kind, chrom, item });
    } else if roll == 7 && rng.chance(1, 2) {
        // degenerate: the simulator's source starts chromosomes that have no value at all
        // (all of them, or some among chromosomes with data): the write must still return
        case.source = Source::Sim {
            inflight: rng.range(1, 4) as u8,
        };
        let all = rng.chance(1, 2);
        for c in &mut case.chroms {
            if all || rng.chance(1, 2) {
                c.items.clear();
            }
        }
    } else if roll < 9 {
        // degenerate but valid: only zero-length items
        for c in &mut case.chroms {
            for it in &mut c.items {
                it.e = it.s;
                if case.kind == Kind::Bed && it.s == 0 {
                    it.s = 1;
                    it.e = 1;
                }
            }
            if case.kind == Kind::Bed {
                c.len = c.len.max(c.items.iter().map(|i| i.s + 1).max().unwrap_or(1));
                c.items.sort_by_key(|i| i.s);
            }
        }
    }
    case
}

/// Is the planted bad record really a bad record for this case (shrinking must not turn it into a valid input)?
pub fn bad_applicable(case: &PipeCase) -> bool {
    let Some(b) = &case.bad else { return true };
    if b.chrom >= case.chroms.len() || case.chroms[b.chrom].items.is_empty() || b.item >= case.chroms[b.chrom].items.len() {
        return false;
    }
    let text = matches!(case.source, Source::SerialText | Source::ParallelFile);
    match b.kind {
        BadKind::Overlap => case.kind == Kind::Wig,
        BadKind::ChromOrder => {
            // the order check lives in the library's sources, not in the writer
            case.opts.sort_all
                && !matches!(case.source, Source::Sim { .. })
                && case.chroms.len() >= 2
                && case.chroms.windows(2).all(|w| w[0].name < w[1].name)
        }
        BadKind::Malformed => text,
        BadKind::ReadError => case.source == Source::SerialText,
        BadKind::SourceError => !text,
        BadKind::UnknownChrom => !case.extra_sizes.iter().any(|(n, _)| n == "chrNotInSizes"),
        _ => true,
    }
}

pub fn run_c13(case: &PipeCase) -> RunReport {
    if !bad_applicable(case) {
        return RunReport {
            verdict: Verdict::Skip("planted bad record not applicable to this case".into()),
            nontrivial: false,
            stats: RunStats::default(),
        };
    }
    let out = pipesim::run_write(case, false);
    let mut st = RunStats::default();
    merge_stats(&mut st, case, &out);
    let verdict = match (&case.bad, &out.result) {
        (_, WriteResult::Panic(p)) => viol(
            "write-panic",
            format!("write panicked ({:?}): {}", case.bad.as_ref().map(|b| &b.kind), p),
        ),
        (Some(b), WriteResult::Ok) => viol(
            "bad-input-accepted",
            format!(
                "{:?} planted at chromosome {} item {} ({:?}, multipass={}) but write returned Ok",
                b.kind, b.chrom, b.item, case.source, case.multipass
            ),
        ),
        (Some(b), WriteResult::Err(_)) => {
            *st.counters.entry(format!("refused:{:?}", b.kind)).or_insert(0) += 1;
            st.faults.insert("F7_bad_record".into(), 1);
            Verdict::Pass
        }
        (None, _) => Verdict::Pass, // returned (Ok or Err): termination is what is checked here
    };
    if case.bad.is_none() {
        let k = match out.result {
            WriteResult::Ok => "valid_returned_ok",
            _ => "valid_returned_err",
        };
        *st.counters.entry(k.into()).or_insert(0) += 1;
    }
    RunReport {
        verdict,
        nontrivial: case.bad.is_some() && case.total_items() >= 2,
        stats: st,
    }
}

// ------------------------------------------------------------------------------------------- C14

#[derive(Clone, Debug, PartialEq, Serialize, Deserialize)]
pub struct EnumCase {
    pub base: PipeCase,
    /// restrict the sweep (used by minimised replay files): crash point / (kind, index, sticky)
    #[serde(default)]
    pub only_crash: Option<usize>,
    #[serde(default)]
    pub only_fail: Option<FailOp>,
}

pub fn gen_c14(rng: &mut Rng) -> EnumCase {
    let mut p = Profile::default();
    // a tenth of the workloads is large enough for several kilobytes of staged data to be in flight when the
    // destination is handed from one chromosome to the next (their crash points and failing operations are
    // sampled, not enumerated: see run_c14)
    let large = rng.chance(1, 10);
    p.max_items = if large { 1500 } else { 40 };
    p.max_chroms = 3;
    p.scaffolds = false;
    p.io_chaos = false;
    p.sched_chaos = false;
    p.zero_len_pm = 0;
    p.bed_zero_zero_pm = 0;
    p.huge = false;
    let mut base = gen::gen_pipe_case(rng, &p);
    // half of the workloads run under a seeded schedule: runs are deterministic, so the fault-free operation log
    // is reproducible under any fixed schedule, and faults then land while staged data is being handed over
    base.sched = if rng.chance(1, 2) {
        Sched::Seeded {
            policy: rng.below(4) as u8,
            seed: rng.next_u64(),
        }
    } else {
        Sched::Calm
    };
    base.read = ReadFaults::default();
    base.sink = SinkFaults::default();
    if rng.chance(1, 3) {
        // F1 makes every accepted fragment its own operation: byte-granular sweep around the header rewrite
        base.sink.short_pm = 300;
        base.sink.seed = rng.next_u64();
    }
    if rng.chance(1, 6) {
        // a refused input: the destination left behind must be rejected or complete
        let nc = base.chroms.len();
        let chrom = rng.below(nc as u64) as usize;
        let item = rng.below(base.chroms[chrom].items.len() as u64) as usize;
        base.bad = Some(Bad {
            kind: if base.kind == Kind::Wig { BadKind::Overlap } else { BadKind::OutOfOrder },
            chrom,
            item,
        });
    }
    EnumCase {
        base,
        only_crash: None,
        only_fail: None,
    }
}

#[derive(Debug, PartialEq)]
pub enum ImageVerdict {
    Rejected(String),
    Complete,
    Wrong(String),
}

/// Classifies a destination image: rejected by the readers, complete, or mistaken for complete with data missing/wrong.
pub fn classify_image(case: &PipeCase, image: &[u8]) -> ImageVerdict {
    let img = Arc::new(image.to_vec());
    let res = std::panic::catch_unwind(std::panic::AssertUnwindSafe(|| -> ImageVerdict {
        let rf = ReadFaults::default();
        match case.kind {
            Kind::Wig => {
                let mut bw = match BigWigRead::open(SimRead::new(img.clone(), &rf)) {
                    Ok(b) => b,
                    Err(e) => return ImageVerdict::Rejected(format!("open: {}", e)),
                };
                let chroms: Vec<bigtools::ChromInfo> = bw.chroms().to_vec();
                let mut got_all = vec![];
                for ci in &chroms {
                    match bw.get_interval(&ci.name, 0, ci.length) {
                        Ok(it) => {
                            let mut v = vec![];
                            for x in it {
                                match x {
                                    Ok(x) => v.push(Item::wig(x.start, x.end, x.value)),
                                    Err(e) => return ImageVerdict::Rejected(format!("query: {}", e)),
                                }
                            }
                            got_all.push((ci.name.clone(), ci.length, v));
                        }
                        Err(e) => return ImageVerdict::Rejected(format!("query: {}", e)),
                    }
                }
                let zooms: Vec<u32> = bw.info().zoom_headers.iter().map(|z| z.reduction_level).collect();
                for z in zooms {
                    for ci in &chroms {
                        match bw.get_zoom_interval(&ci.name, 0, ci.length, z) {
                            Ok(it) => {
                                for x in it {
                                    if let Err(e) = x {
                                        return ImageVerdict::Rejected(format!("zoom query: {}", e));
                                    }
                                }
                            }
                            Err(e) => return ImageVerdict::Rejected(format!("zoom query: {}", e)),
                        }
                    }
                }
                compare_served(case, got_all, image)
            }
            Kind::Bed => {
                let mut bb = match BigBedRead::open(SimRead::new(img.clone(), &rf)) {
                    Ok(b) => b,
                    Err(e) => return ImageVerdict::Rejected(format!("open: {}", e)),
                };
                let chroms: Vec<bigtools::ChromInfo> = bb.chroms().to_vec();
                let mut got_all = vec![];
                for ci in &chroms {
                    match bb.get_interval(&ci.name, 0, ci.length) {
                        Ok(it) => {
                            let mut v = vec![];
                            for x in it {
                                match x {
                                    Ok(x) => v.push(Item::bed(x.start, x.end, &x.rest)),
                                    Err(e) => return ImageVerdict::Rejected(format!("query: {}", e)),
                                }
                            }
                            got_all.push((ci.name.clone(), ci.length, v));
                        }
                        Err(e) => return ImageVerdict::Rejected(format!("query: {}", e)),
                    }
                }
                let zooms: Vec<u32> = bb.info().zoom_headers.iter().map(|z| z.reduction_level).collect();
                for z in zooms {
                    for ci in &chroms {
                        match bb.get_zoom_interval(&ci.name, 0, ci.length, z) {
                            Ok(it) => {
                                for x in it {
                                    if let Err(e) = x {
                                        return ImageVerdict::Rejected(format!("zoom query: {}", e));
                                    }
                                }
                            }
                            Err(e) => return ImageVerdict::Rejected(format!("zoom query: {}", e)),
                        }
                    }
                }
                compare_served(case, got_all, image)
            }
        }
    }));
    match res {
        Ok(v) => v,
        Err(p) => ImageVerdict::Rejected(format!("reader panicked: {}", panic_message(p))),
    }
}

fn compare_served(case: &PipeCase, got: Vec<(String, u32, Vec<Item>)>, image: &[u8]) -> ImageVerdict {
    let want = checks::expected_chroms(case);
    let got_table: Vec<(String, u32)> = got.iter().map(|(n, l, _)| (n.clone(), *l)).collect();
    if got_table != want {
        return ImageVerdict::Wrong(format!("serves chromosome table {:?}, the input had {:?}", got_table, want));
    }
    for (name, _, items) in &got {
        let model = case.chroms.iter().find(|c| &c.name == name).unwrap();
        if *items != model.items {
            return ImageVerdict::Wrong(format!(
                "chromosome {}: serves {} records, the input had {} (or content differs)",
                name,
                items.len(),
                model.items.len()
            ));
        }
    }
    // every advertised zoom level must be complete and correct
    match decode::decode(image) {
        Ok(dec) => {
            if let Err(Verdict::Violation { detail, .. }) = checks::check_zoom_content(case, &dec) {
                return ImageVerdict::Wrong(format!("advertised zoom level wrong: {}", detail));
            }
            // an accepted file also serves its total summary and item count: they must be the final ones
            let (want, zero_len) = checks::whole_file_stats(case);
            match dec.summary {
                Some(sm) => {
                    if let Err(Verdict::Violation { detail, .. }) = checks::check_summary_values("total summary", sm, &want, &zero_len) {
                        return ImageVerdict::Wrong(format!("readers accept the file but {}", detail));
                    }
                }
                None => return ImageVerdict::Wrong("readers accept the file but it has no total summary".into()),
            }
            let want_count = match case.kind {
                Kind::Wig => dec.blocks.len() as u64,
                Kind::Bed => case.total_items() as u64,
            };
            if dec.data_count != want_count {
                return ImageVerdict::Wrong(format!(
                    "readers accept the file but its data/item count is {} instead of {}",
                    dec.data_count, want_count
                ));
            }
        }
        Err(e) => return ImageVerdict::Wrong(format!("readers serve it but the independent decoder cannot read it: {}", e)),
    }
    ImageVerdict::Complete
}

fn op_kind_counts(ops: &[Op]) -> (usize, usize, usize) {
    let mut c = (0, 0, 0);
    for o in ops {
        match o {
            Op::Write { .. } => c.0 += 1,
            Op::Seek { .. } => c.1 += 1,
            Op::Flush => c.2 += 1,
        }
    }
    c
}

pub fn run_c14(ec: &EnumCase) -> RunReport {
    let mut st = RunStats::default();
    let base = &ec.base;
    let clean = pipesim::run_write(base, true);
    merge_stats(&mut st, base, &clean);
    let mut evals: u64 = 1;
    let nontrivial = crate::props::sections_of(base) >= 1;
    let finish = |v: Verdict, mut st: RunStats, evals: u64| {
        st.counters.insert("sub_evaluations".into(), evals);
        RunReport {
            verdict: v,
            nontrivial,
            stats: st,
        }
    };
    match (&base.bad, &clean.result) {
        (None, WriteResult::Ok) => {}
        (Some(_), WriteResult::Err(_)) => {
            // refused input: whatever reached the destination must be rejected (or complete)
            st.faults.insert("F7_bad_record".into(), 1);
            // every prefix of what was written, too
            let n = clean.ops.len();
            for k in 0..=n {
                if let Some(only) = ec.only_crash {
                    if only != k {
                        continue;
                    }
                }
                evals += 1;
                let img = image_after(&clean.ops, k);
                if let ImageVerdict::Wrong(d) = classify_image(base, &img) {
                    return finish(
                        viol("refused-input-left-readable-file", format!("after {} of {} destination operations: {}", k, n, d)),
                        st,
                        evals,
                    );
                }
                *st.counters.entry("crash_images_rejected".into()).or_insert(0) += 1;
            }
            return finish(Verdict::Pass, st, evals);
        }
        (_, r) => {
            return finish(Verdict::Skip(format!("fault-free run: {:?}", r)), st, evals);
        }
    }
    let n = clean.ops.len();
    // every evaluation re-reads or re-writes the whole file, so it costs about one unit per data section: the large
    // workloads get about 30 000 / sections crash points and as many failing operations (at least 12; always the
    // first 6 and the last 12 crash points, where the header is rewritten) instead of all of them
    let want_points = (30_000 / (crate::props::sections_of(base).max(1) as usize)).max(12);
    let stride = if n + 1 > want_points { (n + 1 + want_points - 1) / want_points } else { 1 };
    let sampled = |k: usize| stride == 1 || k < 6 || k + 12 >= n || k % stride == 0;
    if stride > 1 {
        *st.counters.entry("workloads_with_sampled_fault_points".into()).or_insert(0) += 1;
    }
    // F6: crash after the k-th operation, for all k
    if ec.only_fail.is_none() {
        for k in 0..=n {
            if let Some(only) = ec.only_crash {
                if only != k {
                    continue;
                }
            } else if !sampled(k) {
                continue;
            }
            crate::driver::heartbeat();
            evals += 1;
            st.faults.entry("F6_crash_point".into()).and_modify(|x| *x += 1).or_insert(1);
            let img = image_after(&clean.ops, k);
            match classify_image(base, &img) {
                ImageVerdict::Rejected(_) => {
                    *st.counters.entry("crash_images_rejected".into()).or_insert(0) += 1;
                }
                ImageVerdict::Complete => {
                    *st.counters.entry("crash_images_complete".into()).or_insert(0) += 1;
                }
                ImageVerdict::Wrong(d) => {
                    let torn = base.sink.short_pm > 0;
                    return finish(
                        viol(
                            if torn { "torn-prefix-passes-for-complete" } else { "prefix-passes-for-complete" },
                            format!("crash after {} of {} destination operations: {}", k, n, d),
                        ),
                        st,
                        evals,
                    );
                }
            }
        }
        if ec.only_crash.is_none() && classify_image(base, &clean.image) != ImageVerdict::Complete {
            return finish(
                viol("final-image-not-complete", format!("{:?}", classify_image(base, &clean.image))),
                st,
                evals,
            );
        }
    }
    // F5: fail the k-th operation of each kind, one-shot and sticky
    if ec.only_crash.is_none() {
        let (nw, ns, nf) = op_kind_counts(&clean.ops);
        let mut plans: Vec<FailOp> = vec![];
        for (kind, cnt) in [("write", nw), ("seek", ns), ("flush", nf)] {
            for k in 0..cnt {
                for sticky in [false, true] {
                    plans.push(FailOp {
                        kind: kind.to_string(),
                        index: k,
                        sticky,
                        frac_pm: None,
                    });
                }
            }
        }
        let plan_stride = if plans.len() > want_points { (plans.len() + want_points - 1) / want_points } else { 1 };
        for (pi, plan) in plans.into_iter().enumerate() {
            if let Some(only) = &ec.only_fail {
                if *only != plan {
                    continue;
                }
            } else if plan_stride > 1 && pi % plan_stride != 0 {
                continue;
            }
            crate::driver::heartbeat();
            evals += 1;
            let mut c = base.clone();
            c.sink.fail = Some(plan.clone());
            let out = pipesim::run_write(&c, false);
            if out.counts.failed_ops == 0 {
                // the operation sequence changed and the fault never fired: not a violation, not counted
                *st.counters.entry("fault_not_reached".into()).or_insert(0) += 1;
                continue;
            }
            *st.faults.entry("F5_failed_op".into()).or_insert(0) += 1;
            match out.result {
                WriteResult::Ok => {
                    return finish(
                        viol(
                            "io-failure-reported-as-success",
                            format!(
                                "{} #{} ({}) failed, write returned Ok(())",
                                plan.kind,
                                plan.index,
                                if plan.sticky { "sticky" } else { "one-shot" }
                            ),
                        ),
                        st,
                        evals,
                    );
                }
                WriteResult::Err(_) => {
                    *st.counters.entry("failing_sink_returned_err".into()).or_insert(0) += 1;
                }
                WriteResult::Panic(_) => {
                    *st.counters.entry("failing_sink_panicked".into()).or_insert(0) += 1;
                }
            }
        }
    }
    finish(Verdict::Pass, st, evals)
}

pub fn shrink_c14(ec: &EnumCase) -> Vec<EnumCase> {
    crate::props::shrink_pipe(&ec.base)
        .into_iter()
        .map(|b| EnumCase {
            base: b,
            only_crash: None,
            only_fail: None,
        })
        .collect()
}

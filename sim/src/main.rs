use bigsim::driver;

fn arg_val(args: &[String], name: &str) -> Option<String> {
    args.iter().position(|a| a == name).and_then(|i| args.get(i + 1).cloned())
}

fn main() {
    let args: Vec<String> = std::env::args().skip(1).collect();
    if args.is_empty() {
        eprintln!("usage: sim check <PROP> [--tier quick|thorough] [--runs N] [--workers W] | sim replay <file> | sim worker ...");
        std::process::exit(2);
    }
    let default_cap: u64 = args
        .get(1)
        .map(|p| bigsim::props::mem_cap(p))
        .unwrap_or(0);
    let mem_cap = arg_val(&args, "--mem-cap")
        .and_then(|s| s.parse().ok())
        .unwrap_or(default_cap);
    let code = match args[0].as_str() {
        "check" => {
            let prop = args.get(1).cloned().unwrap_or_default();
            if let Some(path) = arg_val(&args, "--replay") {
                driver::replay(&path, mem_cap)
            } else {
                let tier = arg_val(&args, "--tier")
                    .or_else(|| std::env::var("VERIF_TIER").ok())
                    .unwrap_or_else(|| "quick".to_string());
                let opts = driver::CheckOpts {
                    prop,
                    tier,
                    runs: arg_val(&args, "--runs").and_then(|s| s.parse().ok()),
                    workers: arg_val(&args, "--workers")
                        .and_then(|s| s.parse().ok())
                        .unwrap_or_else(|| std::thread::available_parallelism().map(|n| n.get()).unwrap_or(8).min(16)),
                    seed: driver::default_seed(),
                    stall_secs: arg_val(&args, "--stall").and_then(|s| s.parse().ok()).unwrap_or(90),
                    mem_cap,
                };
                driver::check(&opts)
            }
        }
        "worker" => {
            let prop = args.get(1).cloned().unwrap_or_default();
            let g = |n: &str| arg_val(&args, n).and_then(|s| s.parse::<u64>().ok()).unwrap_or(0);
            driver::worker(
                &prop,
                g("--seed"),
                &arg_val(&args, "--tier").unwrap_or_else(|| "quick".into()),
                g("--from"),
                g("--to"),
                g("--stride").max(1),
                mem_cap,
                g("--log-outcomes") == 1,
            );
            0
        }
        "determinism" => {
            let prop = args.get(1).cloned().unwrap_or_default();
            let runs = arg_val(&args, "--runs").and_then(|s| s.parse().ok()).unwrap_or(2000);
            driver::determinism(&prop, driver::default_seed(), runs)
        }
        "replay" => driver::replay(&args.get(1).cloned().unwrap_or_default(), mem_cap),
        "replay-inner" => driver::replay_inner(&args.get(1).cloned().unwrap_or_default(), mem_cap),
        other => {
            eprintln!("unknown command {}", other);
            2
        }
    };
    std::process::exit(code);
}

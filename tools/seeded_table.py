#!/usr/bin/env python3
import json, os, glob
root = os.path.dirname(os.path.dirname(os.path.abspath(__file__)))
print('| id | what was changed | needs, to manifest | caught by (class of the first violation) | also run, not expected to catch |')
print('|---|---|---|---|---|')
for f in sorted(glob.glob(os.path.join(root, 'seeded', '*', 'meta.json'))):
    m = json.load(open(f))
    caught = []
    for c in m['caught_by']:
        cl = m['checks_run'][c]['classes']
        caught.append(f"{c} ({cl[0] if cl else '?'})")
    def cut(x, n):
        x = (x or '').replace('\n', ' ').replace('|', '/')
        return x if len(x) <= n else x[:n - 1] + '…'
    print(f"| {m['id']} | {cut(m['summary'], 230)} | {cut(m['needs'], 200)} | {', '.join(caught)} | {', '.join(m['not_caught_by'])} |")

#!/usr/bin/env python3
"""Generates /verif/MANIFEST.json from the table below (kept in one place so that it stays valid)."""
import json, subprocess, os

ROOT = os.path.dirname(os.path.dirname(os.path.abspath(__file__)))
props = [json.loads(l) for l in open(os.path.join(ROOT, 'properties.jsonl'))]
ids = [p['id'] for p in props]

hook_commits = subprocess.run(['git', '-C', '/repo', 'log', '--format=%h %s', '--grep=^verif hooks'],
                              capture_output=True, text=True).stdout.strip().splitlines()

CHECKS = {
 'C01': dict(engine='pipesim', cat='exploration', ref='DESIGN.md §4 C01',
   technique='deterministic simulation: seeded search over workloads x options x task schedules (seeded yields on a current_thread tokio runtime) x sink/reader I/O faults (short write/read, EINTR); oracle = input model, exact read-back',
   text='Seeded simulation of the whole bigWig write pipeline on the simulator-owned runtime into SimSink, read back through BigWigRead (plain, cached, reopened) over SimRead with short reads/EINTR; every record, the chromosome table and its order are compared bit-exactly with the input. Exploration, not proof: bounded by the generator (<= 6 chromosomes, <= 400 items per chromosome).',
   note='trusts: tokio current_thread determinism (self-tested), SimSink/SimRead implement Write/Seek/Read contracts; sizes bounded by the generator'),
 'C02': dict(engine='pipesim', cat='exploration', ref='DESIGN.md §4 C02',
   technique='deterministic simulation: seeded search over bigBed workloads (overlap/nesting/duplicates) x options x schedules x I/O faults; oracle = input model, exact read-back incl. autoSql, item count, field count',
   text='As C01 for BigBedWrite/BigBedRead: entries (start,end,rest) in input order, item_count, autosql verbatim, header field_count, chromosome table; plain and cached readers.',
   note='rest fields are drawn from a fixed word pool (UTF-8, tabs, no NUL, no trailing whitespace); schemas from a small fixed list plus the default'),
 'C06': dict(engine='pipesim', cat='exploration', ref='DESIGN.md §4 C06',
   technique='deterministic simulation of the write pipeline (several chromosomes in flight, both pass modes); oracle = statistics of the input model / of its coverage-depth function',
   text='get_summary() and item_count() of every simulated write are compared with the statistics computed from the input (bigWig: values weighted by length; bigBed: per-base coverage depth by a sweep over sorted endpoints), bases/min/max exact, sums to 1e-9 of the sum of absolute terms.',
   note='min/max: a zero-length bigWig value may or may not count (statement silent); tolerance on sums only'),
 'C07': dict(engine='pipesim', cat='exploration', ref='DESIGN.md §4 C07',
   technique='deterministic simulation of the write pipeline with small manual/auto zoom lists; independent decode of every zoom block; oracle = per-record statistics of the input restricted to the record span, plus zoom range queries through the reader',
   text='Every zoom block of every level is decoded by the independent decoder and validated record by record (order, disjointness, length <= resolution, covered bases, min, max, sum, sum of squares to f32 rounding, all data covered exactly once); get_zoom_interval is checked against the decoded records on boundary-biased ranges.',
   note='tiling chosen by the writer is not prescribed; which automatic levels exist is not prescribed'),
 'C08': dict(engine='pipesim', cat='exploration', ref='DESIGN.md §4 C08',
   technique='as C07 with the coverage-depth function of overlapping/nested/duplicate/zero-length bigBed entries as the signal',
   text='As C07 for bigBed: the reduced function is the per-base coverage depth computed independently from the entries.',
   note='as C07'),
 'C09': dict(engine='pipesim', cat='exploration', ref='DESIGN.md §4 C09',
   technique='deterministic simulation of the write pipeline; every sink image judged by an independent decoder (own byte parsing, miniz_oxide inflate) for structural well-formedness and for content equality with the input model',
   text='Every sink image (all option combinations, calm and chaotic schedules/I/O) must decode with zero structural problems: header/offset/count consistency, chromosome B+ tree, every R-tree node (containment, order, counts, endFileOffset), every block a complete zlib stream within uncompressBufSize holding <= itemsPerSlot items of one chromosome, trailing magic; decoded records, total summary and zoom records equal the model.',
   note='the decoder is written from the format description and shares no code with bigtools; key order inside the single chromosome-tree leaf is not required to be sorted'),
 'C11': dict(engine='pipesim', cat='exploration', ref='DESIGN.md §4 C11',
   technique='deterministic simulation: for one workload, byte comparison of the sink image across seeded schedules (4 yield policies at every hand-off hook), sources (serial, text, library parallel, SimSource 1-5 in flight), channel sizes, buffering modes and sink short writes/EINTR against a calm serial in-memory reference',
   text='Every variant image must equal the reference byte for byte; schedule traces are recorded and replayable; staging-buffer state probes show which redirect interleavings were reached. A small share of variants runs on a real multi-thread runtime (uncontrolled, counted separately; oracle is schedule-independent).',
   note='interleavings inside one poll are out of reach on a single-threaded runtime (covered for the staging buffer by C12); multi-thread runs are not replayable'),
 'C13': dict(engine='pipesim', cat='exploration', ref='DESIGN.md §4 C13',
   technique='deterministic simulation with fault injection on the input stream: 10 bad-record classes planted at first/middle/last positions of otherwise valid multi-chromosome inputs, across sources, pass modes and schedules; worker-process watchdog and address-space cap decide termination',
   text='The write must return Err (never Ok, never panic, never hang) for every planted bad record; every valid input, including degenerate ones (only zero-length items), must return.',
   note='chromosome-order violations are only planted for the library sources (the check lives there); hang detection = no progress for the stall limit in a worker process'),
 'C14': dict(engine='pipesim', cat='fault_enumeration', ref='DESIGN.md §4 C14',
   technique='fault enumeration inside seeded simulation: for each sampled workload every crash point k of the recorded sink operation log (image rebuilt from the first k operations, with and without short writes) and every (kind,k,one-shot|sticky) failing sink operation',
   text='Each crash image must be rejected by the readers or serve everything completely and correctly; each injected write/seek/flush failure must not yield Ok(()). The inner loops are exhaustive over k for the sampled workloads; the outer loop is seeded search.',
   note='a tenth of the workloads is large (up to 1500 items per chromosome, staged data in flight at the hand-over; fault points sampled when the operation log exceeds 400 entries); half of the workloads run under a seeded schedule (runs are deterministic, so the fault-free operation log is reproducible under any fixed schedule); a panic counts as not-success and is tallied separately'),
 'C03': dict(engine='readsim', cat='exploration', ref='DESIGN.md §4 C03',
   technique='deterministic simulation over query histories: one reader instance (plain, cached, reopened) lives through a seeded sequence of get_interval / partial iteration / get_interval_move / values / zoom / reopen operations on SimRead with short reads, EINTR and (a quarter of the histories) one hard read/seek error inside one operation; oracle = input model after every operation (an operation hit by the hard error may fail, none may answer wrongly)',
   text='After every operation of a history the answer must equal the overlap/clip oracle computed from the input, whatever was asked before; one workload class has 5200 one-item blocks so that the block cache crosses its 5000-entry reset inside a history.',
   note='files are produced by a calm bigtools write (schedule dependence is C11); zero-length values excluded (overlap undefined for them); for empty ranges both answers (nothing / zero-length clip) are accepted'),
 'C04': dict(engine='readsim', cat='exploration', ref='DESIGN.md §4 C04',
   technique='deterministic simulation over query histories on bigBed files biased to blocks whose largest end is not the last entry\'s end, small items_per_slot/block_size; must-include/may-include oracle from the input model',
   text='Every strictly overlapping entry exactly once and in stored order, nothing wholly outside [s,e], touching entries either way; plain, cached and reopened readers, short reads/EINTR, after arbitrary earlier queries.',
   note='as C03'),
 'C05': dict(engine='readsim', cat='exploration', ref='DESIGN.md §4 C05',
   technique='stratified seeded search over tree shapes (levels 1-4+ x last node full/partial/single, fan-out 2-9, 1-700 blocks, 1-3 chromosomes): independent tree walk + boundary sweep (every block boundary +-1) through the public readers on SimRead',
   text='The independent decoder walks every index (main and zoom) and checks containment, order, counts and that a linear scan of the leaves is the block list; then every query that starts or ends on a block boundary or one base either side must return exactly what the model says. Stratified sampling, not exhaustive enumeration; the shape classes reached are reported.',
   note='exhaustive:false - the property\'s wording asks for enumeration, what is delivered is stratified seeded search'),
 'C10': dict(engine='readsim', cat='exploration', ref='DESIGN.md §4 C10',
   technique='deterministic simulation over query histories on files produced by an independent encoder (either byte order, zlib/raw, section types 1/2/3, multi-level chromosome trees, R-tree fan-out/depth/node placement, versions 1-4) read through SimRead with short reads/EINTR',
   text='Chromosome table, summary, autosql, item count, intervals, per-base values and zoom queries must equal what the encoder was told to encode, through plain, cached and reopened readers and GenericBBIRead; every encoded file first passes the independent decoder (encoder self-test) so that an encoder bug cannot be reported as a reader bug.',
   note='trusts the encoder/decoder pair (they cross-check each other on every case)'),
 'C12': dict(engine='tfbsim', cat='exploration', ref='DESIGN.md §4 C12',
   technique='deterministic simulation of the staging buffer: (1) seeded call-interleaving simulator over the public API with the real primitives and a fault-injecting destination, (2) shuttle random/PCT schedules over the same source file compiled against shuttle Mutex/Condvar (producer and consumer threads, deadlock detection, replayable schedules)',
   text='Destination bytes must be exactly the written stream, once, in order, wherever the redirect lands (before the first byte, mid-stream, after the last, never), in-memory and temp-file staging; len() equals bytes written; waiting returns once the producer is done (shuttle reports a lost wake-up as deadlock).',
   note='AtomicCell is modelled by a shuttle mutex (linearizable swap with a scheduling point); temp files are real'),
 'C15': dict(engine='clisim', cat='exploration', ref='DESIGN.md §4 C15',
   technique='seeded simulation of the merge tool (in-process, -t 1 on its current_thread runtime: 1-5 reader instances + merge + clip/adjust/threshold + the concurrent write pipeline) and of the merge/fill iterator adapters with error items injected into an input stream; a fifth of the bigWig-output cases runs the tool pipeline composed from its public pieces over SimRead inputs with one hard read error (may fail, must not succeed with signal missing) and small hand-off sizes; oracle = per-base sum by an independent sweep',
   text='Tool: the per-base sum of the input models (from base 0, across the 50,000-base work windows, with cancelling values, explicit zeros, chromosomes missing from some inputs), clipped, adjusted and thresholded as documented, must equal the per-base expansion of the output for the documented output names (.bw, .bigWig, .bedGraph, --output-type). Library: merge output sorted, disjoint, zero-free and per-base equal to the sum; an Err item is propagated and nothing is emitted after it; fill/fill_start_to_end are gapless, keep every original and add only zeros.',
   note='merge_sections_many/fill are pure adapters: for them this is seeded generation plus error-item injection, labelled so; values are exact binary fractions so that summation order cannot matter'),
 'C16': dict(engine='clisim', cat='exploration', ref='DESIGN.md §4 C16',
   technique='deterministic simulation of the four converters called in-process through their public entry functions with clap-parsed native and UCSC-style argument vectors; -t 1 natively, -t N on the simulator\'s current_thread runtime via the cfg-gated runtime override under seeded yield decisions; a tenth through the built binary (real threads, labelled uncontrolled), a tenth with the input on standard input, a tenth as converter runs over SimRead with one hard read error; a deterministic Reopen-contract history on the file handle the per-task readers are reopened from',
   text='bedGraph->bigWig->bedGraph and BED->bigBed->BED must return the original records in order (values equal as f32, extra columns identical) for every thread count, --parallel mode, pass mode, buffering mode, block/slot/zoom options and flag spelling; --chrom/--start/--end output must equal the range-query oracle.',
   note='real OS-thread runtimes are replaced by the simulator\'s runtime (that is the point of the override); the multicall binary dispatch is exercised by the via-binary share of the cases'),
 'C17': dict(engine='clisim', cat='exploration', ref='DESIGN.md §4 C17',
   technique='seeded simulation: stats_for_bed_item / bigwig_average_over_bed through the cached reader on SimRead with short reads/EINTR and, in a third of the library cases, one hard read error (a row may be an error, never a wrong number) (query history = region list); the tool in-process with -t 1 (deterministic) and -t N (real std::thread pool, uncontrolled, schedule-independent oracle)',
   text='Per region: size, covered bases, sum, mean0, mean, min, max, NaN conventions, one row per input row in order with the requested name column, from an independent clip-and-sum oracle; -t N output must equal -t 1 output byte for byte; bigwigvaluesoverbed per-base values with 0 where no data.',
   note='the -t N path uses std::thread::spawn workers whose schedule cannot be owned without rewriting the tool; those runs are labelled uncontrolled and are not the deciding step for the statistics'),
 'C18': dict(engine='textsim', cat='exploration', ref='DESIGN.md §4 C18',
   technique='seeded simulation over FileView operation histories (read/seek Start|Current|End, windows not at file start / past EOF) against a clamped-cursor reference model; index_chroms and split_file_into_chunks_by_size on seeded files (run lengths x line-length patterns incl. very long lines and multi-byte text x final newline) against a linear scan',
   text='After every FileView operation: same return value, same bytes, no panic. Grouped files: index equals the linear scan exactly; non-grouped: None or only true line starts. Chunks: cut only at line starts and cover the file exactly once for chunk counts 1..lines+2.',
   note='index/chunking are pure functions of the file bytes (no schedule or fault dimension) - evaluated on the same engine and labelled so; the consequence for the parallel path is checked by C11 (serial vs parallel source byte equality)'),
 'C19': dict(engine='textsim+clisim', cat='exploration', ref='DESIGN.md §4 C19',
   technique='seeded simulation of bedtobigbed in-process (0-40 extra columns, with/without a generated schema, all thread/pass modes) and, for a tenth of the cases, through the built binary with the BED on standard input (whole, with a first line longer than 8 KiB, or through a pipe in two pieces) for the stored schema and field count; parser totality by feeding generated schemas, all their truncations, single-token mutations and blocks of the enumeration of short delimiter strings to parse_autosql inside worker processes with a 1 GiB address-space cap and a stall watchdog',
   text='Generated schema declares 3+n fields and the header field count equals it; supplied schemas are stored verbatim with their declared field count; every schema bed_autosql emits parses; the parser returns Ok or Err on every input - a panic, a watchdog kill or an allocation abort is the violation, attributed to the batch in progress and minimised by the driver.',
   note='parser totality has no schedule dimension; its only fault is resource exhaustion (F9)'),
}

checks = []
for pid in ids:
    if pid not in CHECKS:
        continue
    c = CHECKS[pid]
    checks.append({
        'property_id': pid,
        'quick_cmd': f'./check {pid} --tier quick',
        'thorough_cmd': f'./check {pid} --tier thorough',
        'evidence_file': f'/verif/evidence/{pid}.json',
        'replay_cmd_template': f'./check {pid} --replay {{path}}',
        'engine': c['engine'],
        'level_claimed': {'category': c['cat'], 'text': c['text'], 'design_ref': c['ref']},
        'level_note': c['note'],
        'technique': c['technique'],
    })

NA = {
 'C20': 'pure arithmetic over an in-memory iterator and an ndarray view (private pybigtools helpers): no scheduler, clock, I/O object, fault or history on the path; deterministic simulation has nothing to decide (DESIGN.md §4 C20)',
}
not_applicable = []
for pid in ids:
    if pid in CHECKS:
        continue
    not_applicable.append({'property_id': pid, 'reason': NA.get(pid, 'check not built yet (build in progress; see DESIGN.md Appendix B)')})

manifest = {
 'version': 1,
 'setup_cmd': './setup.sh',
 'hooks': {
   'guard': '--cfg bigtools_verif (and --cfg bigtools_verif_shuttle for the import switch in tempfilebuffer.rs)',
   'enable': 'RUSTFLAGS="--cfg bigtools_verif" cargo build --release --offline in /verif/sim (done by ./check and ./setup.sh); bigtools is a path dependency on /repo/bigtools',
   'baseline_off_cmd': './baseline_off.sh',
   'source_commits': [l.split()[0] for l in hook_commits],
   'add_only': True,
 },
 'engines': [
   {'name': 'pipesim', 'path': 'sim/src/pipesim.rs', 'serves_properties': [p for p in ['C01','C02','C06','C07','C08','C09','C11','C13','C14'] if p in CHECKS],
    'kind_free_text': 'real bigtools write pipeline on a simulator-owned current_thread tokio runtime with seeded yield decisions at cfg-gated hook sites; SimSink/SimRead/SimSource seams; worker processes with watchdog'},
   {'name': 'readsim', 'path': 'sim/src/readsim.rs', 'serves_properties': [p for p in ['C03','C04','C05','C10'] if p in CHECKS],
    'kind_free_text': 'real bigtools readers living through seeded query histories on SimRead (short reads, EINTR, reopen); files from bigtools itself or from the independent encoder (sim/src/encode.rs)'},
   {'name': 'clisim', 'path': 'sim/src/clisim.rs + sim/src/textsim.rs', 'serves_properties': [p for p in ['C15','C16','C17','C18','C19'] if p in CHECKS],
    'kind_free_text': 'command-line tools called in-process through their public entry functions (runtime override + seeded yields for -t N), FileView history simulator, autoSql parser under address-space cap and watchdog'},
   {'name': 'tfbsim', 'path': 'sim/src/tfbsim.rs + tfbshuttle/', 'serves_properties': [p for p in ['C12'] if p in CHECKS],
    'kind_free_text': 'the real tempfilebuffer.rs under a call-interleaving simulator and under shuttle schedulers (separate crate including the source file via #[path])'},
 ],
 'checks': checks,
 'not_applicable': not_applicable,
 'notes': 'exit codes: 0 held, 1 VIOLATION (confirmed by fresh-process replay), 2 harness error. VERIF_SEED honoured (default 20261003). known_findings.json lists open findings (KNOWN-FINDING lines, exit 0) and fixed ones.',
}
json.dump(manifest, open(os.path.join(ROOT, 'MANIFEST.json'), 'w'), indent=1)
print('checks:', [c['property_id'] for c in checks], 'n/a:', [n['property_id'] for n in not_applicable])

#!/bin/bash
# Re-runs, for every kept seeded change, the quick check of the property it was written against
# (in an isolated copy of /verif, on a scratch worktree: /repo is never touched).
# usage: tools/regress_seeded.sh [ids...]      output: one line per change, "CAUGHT" or "MISSED"
set -u
SRC="$(cd "$(dirname "$0")/.." && pwd)"
W=${REG_W:-/tmp/verif-mut}; VM=${REG_VM:-/tmp/vm}
mkdir -p $W
rsync -a --delete --exclude target --exclude 'target-*' --exclude .git --exclude replays --exclude evidence --exclude .repo "$SRC/" $W/
if [ ! -d $VM ]; then git -C /repo worktree add -q --detach $VM HEAD; fi
git -C $VM checkout -q --detach $(git -C /repo rev-parse HEAD) 2>/dev/null
ids=${@:-$(ls "$SRC/seeded")}
rc=0
for id in $ids; do
  git -C $VM checkout -q -- . ; git -C $VM clean -fdq
  if ! git -C $VM apply "$SRC/seeded/$id/patch.diff" 2>/dev/null && ! git -C $VM apply --3way "$SRC/seeded/$id/patch.diff" 2>/dev/null; then
    echo "$id PATCH-DOES-NOT-APPLY"; continue
  fi
  prop=${id%%-*}
  out=$(cd $W && VERIF_REPO=$VM ./check $prop --tier quick 2>&1); code=$?
  if [ $code -eq 1 ]; then echo "$id CAUGHT by $prop: $(echo "$out" | grep -E '^violation' | head -1 | cut -c1-160)";
  else echo "$id MISSED by $prop (exit $code)"; rc=1; fi
done
git -C $VM checkout -q -- . ; git -C $VM clean -fdq
exit $rc

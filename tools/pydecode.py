#!/usr/bin/env python3
"""Independent bigWig/bigBed decoder (struct + zlib only), second opinion for C09.

Shares nothing with bigtools nor with the Rust decoder in sim/src/decode.rs (different language,
different inflate implementation). Usage: pydecode.py FILE...  -> one JSON object per line:
  {"file":..., "error": str|null, "problems":[...], "is_bigwig":bool, "version":int, "chroms":[[name,id,len]],
   "records": {chrom_id: [[start,end,value_bits|rest]]}, "summary":[bases,min,max,sum,sumsq]|null (floats as hex bits),
   "data_count":int, "autosql":str|null, "field_count":int, "uncompress_buf_size":int,
   "zooms":[[reduction,[[chrom,start,end,valid,min_bits,max_bits,sum_bits,sumsq_bits]]]]}
"""
import json
import struct
import sys
import zlib

BIGWIG = 0x888FFC26
BIGBED = 0x8789F2EB
CIR = 0x2468ACE0
BPT = 0x78CA8C91


class Bad(Exception):
    pass


def decode(data):
    out = {"problems": []}
    P = out["problems"]
    if len(data) < 64:
        raise Bad("shorter than the header")
    magic_le = struct.unpack_from("<I", data, 0)[0]
    magic_be = struct.unpack_from(">I", data, 0)[0]
    if magic_le in (BIGWIG, BIGBED):
        E, magic = "<", magic_le
    elif magic_be in (BIGWIG, BIGBED):
        E, magic = ">", magic_be
    else:
        raise Bad("unknown magic")
    wig = magic == BIGWIG
    out["is_bigwig"] = wig

    def u(fmt, off):
        size = struct.calcsize(E + fmt)
        if off < 0 or off + size > len(data):
            raise Bad("read of %d bytes at %d beyond end of file" % (size, off))
        return struct.unpack_from(E + fmt, data, off)

    (version, nzoom, chrom_off, data_off, index_off, field_count, defined, sql_off, sum_off, ubs) = u("HHQQQHHQQI", 4)
    out.update(version=version, field_count=field_count, uncompress_buf_size=ubs)
    if struct.unpack_from(E + "I", data, len(data) - 4)[0] != magic:
        P.append("trailing magic missing")
    if not (64 <= data_off < index_off < len(data)):
        P.append("data/index offsets inconsistent")
    zdir = [u("IIQQ", 64 + 24 * i) for i in range(nzoom)]
    for a, b in zip(zdir, zdir[1:]):
        if b[0] <= a[0]:
            P.append("zoom levels not strictly increasing")
    out["autosql"] = None
    if sql_off:
        end = data.find(b"\0", sql_off)
        if end < 0:
            P.append("autoSql not NUL-terminated")
        else:
            out["autosql"] = data[sql_off:end].decode("utf-8", "replace")
    if wig and (field_count or defined or sql_off):
        P.append("bigWig with bigBed-only header fields")
    out["summary"] = None
    if sum_off:
        bases = u("Q", sum_off)[0]
        bits = u("QQQQ", sum_off + 8)
        out["summary"] = [bases] + ["%016x" % b for b in bits]
    out["data_count"] = u("Q", data_off)[0]

    # chromosome B+ tree
    if u("I", chrom_off)[0] != BPT:
        raise Bad("bad chromosome tree magic")
    bsize, ksize, vsize, count = u("IIIQ", chrom_off + 4)
    if vsize != 8:
        P.append("chromosome tree valSize != 8")
    chroms = []
    stack = [chrom_off + 32]
    guard = 0
    while stack:
        guard += 1
        if guard > 100000:
            raise Bad("chromosome tree does not terminate")
        off = stack.pop()
        isleaf, _r, n = u("BBH", off)
        if n > bsize:
            P.append("chromosome tree node larger than blockSize")
        kids = []
        for i in range(n):
            o = off + 4 + i * (ksize + 8)
            key = data[o:o + ksize]
            if isleaf:
                cid, clen = u("II", o + ksize)
                chroms.append([key.rstrip(b"\0").decode("utf-8", "replace"), cid, clen])
            else:
                kids.append(u("Q", o + ksize)[0])
        stack.extend(reversed(kids))
    if count != len(chroms):
        P.append("chromosome tree itemCount mismatch")
    if sorted(c[1] for c in chroms) != list(range(len(chroms))):
        P.append("chromosome ids are not 0..n-1")
    out["chroms"] = chroms

    def walk(ioff, what):
        if u("I", ioff)[0] != CIR:
            raise Bad(what + ": bad R-tree magic")
        bs, items, sc, sb, ec, eb, endoff, ips = u("IQIIIIQI", ioff + 4)
        leaves = []
        stack = [(ioff + 48, None)]
        guard = 0
        depth_of_leaves = set()
        while stack:
            guard += 1
            if guard > 5000000:
                raise Bad(what + ": walk does not terminate")
            off, span = stack.pop()
            isleaf, _r, n = u("BBH", off)
            if isleaf > 1:
                raise Bad(what + ": bad isLeaf")
            if n == 0:
                P.append(what + ": empty node")
            if n > bs:
                P.append(what + ": node larger than blockSize")
            prev = None
            kids = []
            for i in range(n):
                if isleaf:
                    a, b, c, d, doff, dsize = u("IIIIQQ", off + 4 + 32 * i)
                else:
                    a, b, c, d, child = u("IIIIQ", off + 4 + 24 * i)
                if (a, b) > (c, d):
                    P.append(what + ": item with start after end")
                if prev is not None and prev > (a, b):
                    P.append(what + ": items not sorted by start")
                prev = (a, b)
                if span is not None and not (span[0] <= (a, b) and (c, d) <= span[1]):
                    P.append(what + ": item (%d,%d)-(%d,%d) not contained in its parent's span" % (a, b, c, d))
                if isleaf:
                    leaves.append((a, b, c, d, doff, dsize))
                else:
                    kids.append((child, ((a, b), (c, d))))
            stack.extend(reversed(kids))
        if items != len(leaves):
            P.append(what + ": itemCount %d but %d leaf items" % (items, len(leaves)))
        for l in leaves:
            if not ((sc, sb) <= (l[0], l[1]) and (l[2], l[3]) <= (ec, eb)):
                P.append(what + ": header bounds do not contain a leaf")
                break
        for x, y in zip(leaves, leaves[1:]):
            if y[4] < x[4] + x[5]:
                P.append(what + ": leaves not in file order")
                break
        return leaves, ips, endoff, bs

    def block(off, size):
        if off + size > len(data):
            raise Bad("block beyond end of file")
        raw = data[off:off + size]
        if ubs:
            d = zlib.decompressobj()
            try:
                res = d.decompress(raw)
            except zlib.error as e:
                raise Bad("not a zlib stream: %s" % e)
            if not d.eof or d.unused_data:
                raise Bad("zlib stream does not end with the block")
            if len(res) > ubs:
                raise Bad("inflated size %d exceeds uncompressBufSize %d" % (len(res), ubs))
            return res
        return raw

    leaves, ips, endoff, _bs = walk(index_off, "main index")
    records = {}
    nblocks = 0
    for (a, b, c, d, off, size) in leaves:
        if off < data_off + 8 or off + size > index_off:
            P.append("data block outside the data section")
        if a != c:
            P.append("data block spans chromosomes")
        try:
            raw = block(off, size)
        except Bad as e:
            P.append("data block at %d: %s" % (off, e))
            continue
        nblocks += 1
        items = []
        if wig:
            cid, start, end, step, span, typ, _r, n = struct.unpack_from(E + "IIIIIBBH", raw, 0)
            pos = 24
            cur = start
            for _ in range(n):
                if typ == 1:
                    s, e, v = struct.unpack_from(E + "III", raw, pos)
                    pos += 12
                elif typ == 2:
                    s, v = struct.unpack_from(E + "II", raw, pos)
                    e = s + span
                    pos += 8
                elif typ == 3:
                    (v,) = struct.unpack_from(E + "I", raw, pos)
                    s, e = cur, cur + span
                    cur += step
                    pos += 4
                else:
                    P.append("unknown section type")
                    break
                items.append([s, e, v])
            if pos != len(raw):
                P.append("bigWig section at %d has trailing bytes" % off)
            for s, e, _v in items:
                if s < start or e > end:
                    P.append("bigWig item outside its section header")
                    break
        else:
            pos = 0
            cid = None
            while pos < len(raw):
                c2, s, e = struct.unpack_from(E + "III", raw, pos)
                z = raw.find(b"\0", pos + 12)
                if z < 0:
                    P.append("bigBed record without NUL")
                    break
                if cid is None:
                    cid = c2
                elif cid != c2:
                    P.append("bigBed block mixes chromosomes")
                items.append([s, e, raw[pos + 12:z].decode("utf-8", "replace")])
                pos = z + 1
        if not items:
            P.append("block at %d holds no items" % off)
            continue
        if cid != a:
            P.append("block at %d: index chromosome %d, block chromosome %s" % (off, a, cid))
        if ips and len(items) > ips:
            P.append("block holds more than itemsPerSlot items")
        for it in items:
            if it[0] < b or it[1] > d:
                P.append("block at %d: item [%d, %d) outside the span [%d, %d) of its index entry" % (off, it[0], it[1], b, d))
                break
        records.setdefault(str(cid), []).extend(items)
    out["records"] = records
    out["nblocks"] = nblocks
    if leaves:
        last_end = leaves[-1][4] + leaves[-1][5]
        if not (last_end <= endoff <= index_off):
            P.append("main index endFileOffset out of range")

    zooms = []
    for (red, _r, zdata, zindex) in zdir:
        recs = []
        try:
            zl, zips, zend, _ = walk(zindex, "zoom %d index" % red)
        except Bad as e:
            P.append(str(e))
            zooms.append([red, recs])
            continue
        for (a, b, c, d, off, size) in zl:
            if off < zdata or off + size > zindex:
                P.append("zoom %d block outside its data section" % red)
            try:
                raw = block(off, size)
            except Bad as e:
                P.append("zoom %d block at %d: %s" % (red, off, e))
                continue
            if len(raw) % 32 or not raw:
                P.append("zoom %d block size not a positive multiple of 32" % red)
            n = len(raw) // 32
            if zips and n > zips:
                P.append("zoom %d block holds more than itemsPerSlot records" % red)
            for i in range(n):
                r = list(struct.unpack_from(E + "IIIIIIII", raw, 32 * i))
                if r[0] != a or a != c or r[1] < b or r[2] > d:
                    P.append("zoom %d record outside the span of its index entry" % red)
                recs.append(r)
        zooms.append([red, recs])
    out["zooms"] = zooms
    return out


def main():
    for path in sys.argv[1:]:
        try:
            with open(path, "rb") as f:
                data = f.read()
            res = decode(data)
            res["error"] = None
        except Bad as e:
            res = {"error": str(e), "problems": []}
        except (struct.error, IndexError, OverflowError) as e:
            res = {"error": "truncated or corrupt: %s" % e, "problems": []}
        res["file"] = path
        sys.stdout.write(json.dumps(res) + "\n")


if __name__ == "__main__":
    main()

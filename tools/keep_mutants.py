#!/usr/bin/env python3
"""Collects confirmed seeded changes into /verif/seeded/<id>/ from the trial logs written by tools/try_mutant.sh.

usage: tools/keep_mutants.py LOG...   (a later log entry for the same mutant replaces an earlier one)
A change is kept only if the trial confirmed: suite passes with the change, demonstration fails with it and
passes without it."""
import json, os, re, shutil, subprocess, sys

ROOT = os.path.dirname(os.path.dirname(os.path.abspath(__file__)))
entries = {}
for log in sys.argv[1:]:
    cur = None
    for line in open(log, errors='replace'):
        line = line.rstrip('\n')
        m = re.match(r'== (/tmp/mut(\d?)-(C\d+)/(m\d+))', line)
        if m:
            cur = {'dir': m.group(1), 'id': f'{m.group(3)}-' + ('w' + m.group(2) if m.group(2) else '') + m.group(4), 'suite': None, 'demo_with': [], 'demo_without': [], 'checks': {}}
            entries[cur['id']] = cur
            continue
        if cur is None:
            continue
        if line.startswith('suite with change:'):
            cur['suite'] = line.split(':', 1)[1].strip()
        elif line.startswith('PATCH-DOES-NOT-APPLY'):
            cur['suite'] = 'patch does not apply'
        elif line.startswith('demo '):
            m = re.match(r'demo (\S+) (with|without) change: exit=(\d+)', line)
            if m:
                cur['demo_' + m.group(2)].append(int(m.group(3)))
        elif line.startswith('check '):
            m = re.match(r'check (C\d+) exit=(\d+) ?(.*)', line)
            if m:
                classes = re.findall(r'violation class=(\S+)', m.group(3))
                cur['checks'][m.group(1)] = {'exit': int(m.group(2)), 'classes': classes, 'first': m.group(3)[:300]}

head = subprocess.run(['git', '-C', '/repo', 'rev-parse', '--short', 'HEAD'], capture_output=True, text=True).stdout.strip()
kept, dropped = [], []
for mid, e in sorted(entries.items()):
    ok = (e['suite'] or '').endswith(' 0 failed') and e['demo_with'] and all(x != 0 for x in e['demo_with']) \
        and e['demo_without'] and all(x == 0 for x in e['demo_without'])
    incomplete = any(c['exit'] not in (0, 1) for c in e['checks'].values())
    if not ok or incomplete:
        dropped.append((mid, e['suite'], e['demo_with'], e['demo_without'], {k: v['exit'] for k, v in e['checks'].items()}))
        continue
    dst = os.path.join(ROOT, 'seeded', mid)
    os.makedirs(dst, exist_ok=True)
    for f in os.listdir(e['dir']):
        if f.endswith('.rs') or f == 'patch.diff':
            shutil.copy(os.path.join(e['dir'], f), os.path.join(dst, f))
    try:
        meta = json.load(open(os.path.join(e['dir'], 'meta.json')))
    except Exception:
        meta = {}
    caught = sorted(k for k, v in e['checks'].items() if v['exit'] == 1)
    missed = sorted(k for k, v in e['checks'].items() if v['exit'] == 0)
    meta_out = {
        'id': mid,
        'property': meta.get('property', mid.split('-')[0]),
        'summary': meta.get('summary'),
        'needs': meta.get('needs'),
        'files': meta.get('files'),
        'demo_cmd': meta.get('demo_cmd'),
        'author_verified': meta.get('verified'),
        'confirmed_here': {
            'how': 'tools/try_mutant.sh in a scratch worktree of /repo (isolated copy of /verif): repository suite with the change; demonstration with and without the change',
            'repo_commit': head,
            'suite_with_change': e['suite'],
            'demo_exit_with_change': e['demo_with'],
            'demo_exit_without_change': e['demo_without'],
        },
        'checks_run': e['checks'],
        'caught_by': caught,
        'not_caught_by': missed,
    }
    json.dump(meta_out, open(os.path.join(dst, 'meta.json'), 'w'), indent=1)
    kept.append((mid, caught, missed))
for k in kept:
    print('kept', k)
for d in dropped:
    print('DROPPED', d)

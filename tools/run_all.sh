#!/bin/bash
# usage: tools/run_all.sh [quick|thorough] [props...]   (honours VERIF_SEED)
cd "$(dirname "$0")/.."
tier=${1:-quick}; shift
props=${@:-C01 C02 C03 C04 C05 C06 C07 C08 C09 C10 C11 C12 C13 C14 C15 C16 C17 C18 C19}
rc=0
for p in $props; do
  start=$(date +%s)
  out=$(./check $p --tier $tier 2>&1); code=$?
  end=$(date +%s)
  echo "$p exit=$code $((end-start))s $(echo "$out" | grep -E '^(evaluations|VIOLATION|HARNESS)' | tr '\n' ' ' | cut -c1-260)"
  [ $code -ne 0 ] && rc=1
done
exit $rc

#!/bin/bash
# usage: tools/try_mutant.sh <mutant dir with patch.diff + demo *.rs> <prop> [more props...]
# Confirms the seeded change in a scratch worktree (tests pass, demo fails with / passes without),
# then runs the named checks against the changed tree. Nothing touches /repo.
set -u
M=$1; shift
VM=${TRY_VM:-/tmp/vm}; T=${TRY_TARGET:-/tmp/vm-target}
SRC="$(cd "$(dirname "$0")/.." && pwd)"
# isolated copy of the framework, so that concurrent work in /verif (and /verif/.repo) is not disturbed
W=${TRY_W:-/tmp/verif-mut}
mkdir -p $W
rsync -a --delete --exclude target --exclude target-shuttle --exclude .git --exclude replays --exclude evidence --exclude .repo "$SRC/" $W/
cd $W
if [ ! -d $VM ]; then git -C /repo worktree add -q --detach $VM HEAD; fi
git -C $VM checkout -q --detach $(git -C /repo rev-parse HEAD) 2>/dev/null
git -C $VM checkout -q -- . ; git -C $VM clean -fdq
echo "== $M"
if ! git -C $VM apply "$M/patch.diff" 2>/dev/null; then
  if ! git -C $VM apply --3way "$M/patch.diff" 2>/dev/null; then echo "PATCH-DOES-NOT-APPLY"; exit 3; fi
fi
export CARGO_TARGET_DIR=$T
unset RUSTFLAGS
suite=$(cd $VM && cargo test --workspace --no-fail-fast --offline 2>&1 | grep -E "^test result" | awk '{p+=$4; f+=$6} END {print p" passed "f" failed"}')
echo "suite with change: $suite"
demos=$(ls "$M"/*.rs 2>/dev/null)
for d in $demos; do cp "$d" $VM/bigtools/tests/; done
for d in $demos; do n=$(basename $d .rs); (cd $VM && timeout 900 cargo test --offline -p bigtools --test $n >$T-demo.log 2>&1); echo "demo $n with change: exit=$?"; done
git -C $VM apply -R "$M/patch.diff" 2>/dev/null || git -C $VM checkout -q -- bigtools/src
for d in $demos; do n=$(basename $d .rs); (cd $VM && timeout 900 cargo test --offline -p bigtools --test $n >$T-demo2.log 2>&1); echo "demo $n without change: exit=$?"; done
git -C $VM checkout -q -- . ; git -C $VM clean -fdq
git -C $VM apply "$M/patch.diff" 2>/dev/null || git -C $VM apply --3way "$M/patch.diff"
unset CARGO_TARGET_DIR
for p in "$@"; do
  out=$(VERIF_REPO=$VM ./check $p --tier quick 2>&1); code=$?
  echo "check $p exit=$code $(echo "$out" | grep -E '^(violation|HARNESS)' | head -3 | cut -c1-300 | tr '\n' '|')"
done
git -C $VM checkout -q -- . ; git -C $VM clean -fdq


    #![feature(provide_any)]

    use std::any::{Demand, Provider};

    fn _f<'a, P: Provider>(p: &'a P, demand: &mut Demand<'a>) {
        p.provide(demand);
    }

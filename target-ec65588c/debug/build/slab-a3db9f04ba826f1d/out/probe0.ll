; ModuleID = 'probe0.c4a03c8a7acda30-cgu.0'
source_filename = "probe0.c4a03c8a7acda30-cgu.0"
target datalayout = "e-m:e-p270:32:32-p271:32:32-p272:64:64-i64:64-i128:128-f80:128-n8:16:32:64-S128"
target triple = "x86_64-unknown-linux-gnu"

!llvm.module.flags = !{!0, !1}
!llvm.ident = !{!2}

!0 = !{i32 8, !"PIC Level", i32 2}
!1 = !{i32 2, !"RtLibUseGOT", i32 1}
!2 = !{!"rustc version 1.95.0 (59807616e 2026-04-14)"}

/*
 * libdeflate.h - public header for libdeflate
 */

#ifndef LIBDEFLATE_H
#define LIBDEFLATE_H

#include <stddef.h>
#include <stdint.h>

#ifdef __cplusplus
extern "C" {
#endif

#define LIBDEFLATE_VERSION_MAJOR	1
#define LIBDEFLATE_VERSION_MINOR	17
#define LIBDEFLATE_VERSION_STRING	"1.17"

/*
 * Users of libdeflate.dll on Windows can define LIBDEFLATE_DLL to cause
 * __declspec(dllimport) to be used.  This should be done when it's easy to do.
 * Otherwise it's fine to skip it, since it is a very minor performance
 * optimization that is irrelevant for most use cases of libdeflate.
 */
#ifndef LIBDEFLATEAPI
#  if defined(LIBDEFLATE_DLL) && (defined(_WIN32) || defined(__CYGWIN__))
#    define LIBDEFLATEAPI	__declspec(dllimport)
#  else
#    define LIBDEFLATEAPI
#  endif
#endif

/* ========================================================================== */
/*                             Compression                                    */
/* ========================================================================== */

struct libdeflate_compressor;

/*
 * libdeflate_alloc_compressor() allocates a new compressor that supports
 * DEFLATE, zlib, and gzip compression.  'compression_level' is the compression
 * level on a zlib-like scale but with a higher maximum value (1 = fastest, 6 =
 * medium/default, 9 = slow, 12 = slowest).  Level 0 is also supported and means
 * "no compression", specifically "create a valid stream, but only emit
 * uncompressed blocks" (this will expand the data slightly).
 *
 * The return value is a pointer to the new compressor, or NULL if out of memory
 * or if the compression level is invalid (i.e. outside the range [0, 12]).
 *
 * Note: for compression, the sliding window size is defined at compilation time
 * to 32768, the largest size permissible in the DEFLATE format.  It cannot be
 * changed at runtime.
 *
 * A single compressor is not safe to use by multiple threads concurrently.
 * However, different threads may use different compressors concurrently.
 */
LIBDEFLATEAPI struct libdeflate_compressor *
libdeflate_alloc_compressor(int compression_level);

/*
 * libdeflate_deflate_compress() performs raw DEFLATE compression on a buffer of
 * data.  It attempts to compress 'in_nbytes' bytes of data located at 'in' and
 * write the result to 'out', which has space for 'out_nbytes_avail' bytes.  The
 * return value is the compressed size in bytes, or 0 if the data could not be
 * compressed to 'out_nbytes_avail' bytes or fewer (but see note below).
 *
 * If compression is successful, then the output data is guaranteed to be a
 * valid DEFLATE stream that decompresses to the input data.  No other
 * guarantees are made about the output data.  Notably, different versions of
 * libdeflate can produce different compressed data for the same uncompressed
 * data, even at the same compression level.  Do ***NOT*** do things like
 * writing tests that compare compressed data to a golden output, as this can
 * break when libdeflate is updated.  (This property isn't specific to
 * libdeflate; the same is true for zlib and other compression libraries too.)
 *
 * Note: due to a performance optimization, libdeflate_deflate_compress()
 * currently needs a small amount of slack space at the end of the output
 * buffer.  As a result, it can't actually report compressed sizes very close to
 * 'out_nbytes_avail'.  This doesn't matter in real-world use cases, and
 * libdeflate_deflate_compress_bound() already includes the slack space.
 * However, it does mean that testing code that redundantly compresses data
 * using an exact-sized output buffer won't work as might be expected:
 *
 *	out_nbytes = libdeflate_deflate_compress(c, in, in_nbytes, out,
 *						 libdeflate_deflate_compress_bound(in_nbytes));
 *	// The following assertion will fail.
 *	assert(libdeflate_deflate_compress(c, in, in_nbytes, out, out_nbytes) != 0);
 *
 * To avoid this, either don't write tests like the above, or make sure to
 * include at least 9 bytes of slack space in 'out_nbytes_avail'.
 */
LIBDEFLATEAPI size_t
libdeflate_deflate_compress(struct libdeflate_compressor *compressor,
			    const void *in, size_t in_nbytes,
			    void *out, size_t out_nbytes_avail);

/*
 * libdeflate_deflate_compress_bound() returns a worst-case upper bound on the
 * number of bytes of compressed data that may be produced by compressing any
 * buffer of length less than or equal to 'in_nbytes' using
 * libdeflate_deflate_compress() with the specified compressor.  This bound will
 * necessarily be a number greater than or equal to 'in_nbytes'.  It may be an
 * overestimate of the true upper bound.  The return value is guaranteed to be
 * the same for all invocations with the same compressor and same 'in_nbytes'.
 *
 * As a special case, 'compressor' may be NULL.  This causes the bound to be
 * taken across *any* libdeflate_compressor that could ever be allocated with
 * this build of the library, with any options.
 *
 * Note that this function is not necessary in many applications.  With
 * block-based compression, it is usually preferable to separately store the
 * uncompressed size of each block and to store any blocks that did not compress
 * to less than their original size uncompressed.  In that scenario, there is no
 * need to know the worst-case compressed size, since the maximum number of
 * bytes of compressed data that may be used would always be one less than the
 * input length.  You can just pass a buffer of that size to
 * libdeflate_deflate_compress() and store the data uncompressed if
 * libdeflate_deflate_compress() returns 0, indicating that the compressed data
 * did not fit into the provided output buffer.
 */
LIBDEFLATEAPI size_t
libdeflate_deflate_compress_bound(struct libdeflate_compressor *compressor,
				  size_t in_nbytes);

/*
 * Like libdeflate_deflate_compress(), but uses the zlib wrapper format instead
 * of raw DEFLATE.
 */
LIBDEFLATEAPI size_t
libdeflate_zlib_compress(struct libdeflate_compressor *compressor,
			 const void *in, size_t in_nbytes,
			 void *out, size_t out_nbytes_avail);

/*
 * Like libdeflate_deflate_compress_bound(), but assumes the data will be
 * compressed with libdeflate_zlib_compress() rather than with
 * libdeflate_deflate_compress().
 */
LIBDEFLATEAPI size_t
libdeflate_zlib_compress_bound(struct libdeflate_compressor *compressor,
			       size_t in_nbytes);

/*
 * Like libdeflate_deflate_compress(), but uses the gzip wrapper format instead
 * of raw DEFLATE.
 */
LIBDEFLATEAPI size_t
libdeflate_gzip_compress(struct libdeflate_compressor *compressor,
			 const void *in, size_t in_nbytes,
			 void *out, size_t out_nbytes_avail);

/*
 * Like libdeflate_deflate_compress_bound(), but assumes the data will be
 * compressed with libdeflate_gzip_compress() rather than with
 * libdeflate_deflate_compress().
 */
LIBDEFLATEAPI size_t
libdeflate_gzip_compress_bound(struct libdeflate_compressor *compressor,
			       size_t in_nbytes);

/*
 * libdeflate_free_compressor() frees a compressor that was allocated with
 * libdeflate_alloc_compressor().  If a NULL pointer is passed in, no action is
 * taken.
 */
LIBDEFLATEAPI void
libdeflate_free_compressor(struct libdeflate_compressor *compressor);

/* ========================================================================== */
/*                             Decompression                                  */
/* ========================================================================== */

struct libdeflate_decompressor;

/*
 * libdeflate_alloc_decompressor() allocates a new decompressor that can be used
 * for DEFLATE, zlib, and gzip decompression.  The return value is a pointer to
 * the new decompressor, or NULL if out of memory.
 *
 * This function takes no parameters, and the returned decompressor is valid for
 * decompressing data that was compressed at any compression level and with any
 * sliding window size.
 *
 * A single decompressor is not safe to use by multiple threads concurrently.
 * However, different threads may use different decompressors concurrently.
 */
LIBDEFLATEAPI struct libdeflate_decompressor *
libdeflate_alloc_decompressor(void);

/*
 * Result of a call to libdeflate_deflate_decompress(),
 * libdeflate_zlib_decompress(), or libdeflate_gzip_decompress().
 */
enum libdeflate_result {
	/* Decompression was successful.  */
	LIBDEFLATE_SUCCESS = 0,

	/* Decompression failed because the compressed data was invalid,
	 * corrupt, or otherwise unsupported.  */
	LIBDEFLATE_BAD_DATA = 1,

	/* A NULL 'actual_out_nbytes_ret' was provided, but the data would have
	 * decompressed to fewer than 'out_nbytes_avail' bytes.  */
	LIBDEFLATE_SHORT_OUTPUT = 2,

	/* The data would have decompressed to more than 'out_nbytes_avail'
	 * bytes.  */
	LIBDEFLATE_INSUFFICIENT_SPACE = 3,
};

/*
 * libdeflate_deflate_decompress() decompresses a DEFLATE stream from the buffer
 * 'in' with compressed size up to 'in_nbytes' bytes.  The uncompressed data is
 * written to 'out', a buffer with size 'out_nbytes_avail' bytes.  If
 * decompression succeeds, then 0 (LIBDEFLATE_SUCCESS) is returned.  Otherwise,
 * a nonzero result code such as LIBDEFLATE_BAD_DATA is returned, and the
 * contents of the output buffer are undefined.
 *
 * Decompression stops at the end of the DEFLATE stream (as indicated by the
 * BFINAL flag), even if it is actually shorter than 'in_nbytes' bytes.
 *
 * libdeflate_deflate_decompress() can be used in cases where the actual
 * uncompressed size is known (recommended) or unknown (not recommended):
 *
 *   - If the actual uncompressed size is known, then pass the actual
 *     uncompressed size as 'out_nbytes_avail' and pass NULL for
 *     'actual_out_nbytes_ret'.  This makes libdeflate_deflate_decompress() fail
 *     with LIBDEFLATE_SHORT_OUTPUT if the data decompressed to fewer than the
 *     specified number of bytes.
 *
 *   - If the actual uncompressed size is unknown, then provide a non-NULL
 *     'actual_out_nbytes_ret' and provide a buffer with some size
 *     'out_nbytes_avail' that you think is large enough to hold all the
 *     uncompressed data.  In this case, if the data decompresses to less than
 *     or equal to 'out_nbytes_avail' bytes, then
 *     libdeflate_deflate_decompress() will write the actual uncompressed size
 *     to *actual_out_nbytes_ret and return 0 (LIBDEFLATE_SUCCESS).  Otherwise,
 *     it will return LIBDEFLATE_INSUFFICIENT_SPACE if the provided buffer was
 *     not large enough but no other problems were encountered, or another
 *     nonzero result code if decompression failed for another reason.
 */
LIBDEFLATEAPI enum libdeflate_result
libdeflate_deflate_decompress(struct libdeflate_decompressor *decompressor,
			      const void *in, size_t in_nbytes,
			      void *out, size_t out_nbytes_avail,
			      size_t *actual_out_nbytes_ret);

/*
 * Like libdeflate_deflate_decompress(), but adds the 'actual_in_nbytes_ret'
 * argument.  If decompression succeeds and 'actual_in_nbytes_ret' is not NULL,
 * then the actual compressed size of the DEFLATE stream (aligned to the next
 * byte boundary) is written to *actual_in_nbytes_ret.
 */
LIBDEFLATEAPI enum libdeflate_result
libdeflate_deflate_decompress_ex(struct libdeflate_decompressor *decompressor,
				 const void *in, size_t in_nbytes,
				 void *out, size_t out_nbytes_avail,
				 size_t *actual_in_nbytes_ret,
				 size_t *actual_out_nbytes_ret);

/*
 * Like libdeflate_deflate_decompress(), but assumes the zlib wrapper format
 * instead of raw DEFLATE.
 *
 * Decompression will stop at the end of the zlib stream, even if it is shorter
 * than 'in_nbytes'.  If you need to know exactly where the zlib stream ended,
 * use libdeflate_zlib_decompress_ex().
 */
LIBDEFLATEAPI enum libdeflate_result
libdeflate_zlib_decompress(struct libdeflate_decompressor *decompressor,
			   const void *in, size_t in_nbytes,
			   void *out, size_t out_nbytes_avail,
			   size_t *actual_out_nbytes_ret);

/*
 * Like libdeflate_zlib_decompress(), but adds the 'actual_in_nbytes_ret'
 * argument.  If 'actual_in_nbytes_ret' is not NULL and the decompression
 * succeeds (indicating that the first zlib-compressed stream in the input
 * buffer was decompressed), then the actual number of input bytes consumed is
 * written to *actual_in_nbytes_ret.
 */
LIBDEFLATEAPI enum libdeflate_result
libdeflate_zlib_decompress_ex(struct libdeflate_decompressor *decompressor,
			      const void *in, size_t in_nbytes,
			      void *out, size_t out_nbytes_avail,
			      size_t *actual_in_nbytes_ret,
			      size_t *actual_out_nbytes_ret);

/*
 * Like libdeflate_deflate_decompress(), but assumes the gzip wrapper format
 * instead of raw DEFLATE.
 *
 * If multiple gzip-compressed members are concatenated, then only the first
 * will be decompressed.  Use libdeflate_gzip_decompress_ex() if you need
 * multi-member support.
 */
LIBDEFLATEAPI enum libdeflate_result
libdeflate_gzip_decompress(struct libdeflate_decompressor *decompressor,
			   const void *in, size_t in_nbytes,
			   void *out, size_t out_nbytes_avail,
			   size_t *actual_out_nbytes_ret);

/*
 * Like libdeflate_gzip_decompress(), but adds the 'actual_in_nbytes_ret'
 * argument.  If 'actual_in_nbytes_ret' is not NULL and the decompression
 * succeeds (indicating that the first gzip-compressed member in the input
 * buffer was decompressed), then the actual number of input bytes consumed is
 * written to *actual_in_nbytes_ret.
 */
LIBDEFLATEAPI enum libdeflate_result
libdeflate_gzip_decompress_ex(struct libdeflate_decompressor *decompressor,
			      const void *in, size_t in_nbytes,
			      void *out, size_t out_nbytes_avail,
			      size_t *actual_in_nbytes_ret,
			      size_t *actual_out_nbytes_ret);

/*
 * libdeflate_free_decompressor() frees a decompressor that was allocated with
 * libdeflate_alloc_decompressor().  If a NULL pointer is passed in, no action
 * is taken.
 */
LIBDEFLATEAPI void
libdeflate_free_decompressor(struct libdeflate_decompressor *decompressor);

/* ========================================================================== */
/*                                Checksums                                   */
/* ========================================================================== */

/*
 * libdeflate_adler32() updates a running Adler-32 checksum with 'len' bytes of
 * data and returns the updated checksum.  When starting a new checksum, the
 * required initial value for 'adler' is 1.  This value is also returned when
 * 'buffer' is specified as NULL.
 */
LIBDEFLATEAPI uint32_t
libdeflate_adler32(uint32_t adler, const void *buffer, size_t len);


/*
 * libdeflate_crc32() updates a running CRC-32 checksum with 'len' bytes of data
 * and returns the updated checksum.  When starting a new checksum, the required
 * initial value for 'crc' is 0.  This value is also returned when 'buffer' is
 * specified as NULL.
 */
LIBDEFLATEAPI uint32_t
libdeflate_crc32(uint32_t crc, const void *buffer, size_t len);

/* ========================================================================== */
/*                           Custom memory allocator                          */
/* ========================================================================== */

/*
 * Install a custom memory allocator which libdeflate will use for all memory
 * allocations.  'malloc_func' is a function that must behave like malloc(), and
 * 'free_func' is a function that must behave like free().
 *
 * There must not be any libdeflate_compressor or libdeflate_decompressor
 * structures in existence when calling this function.
 */
LIBDEFLATEAPI void
libdeflate_set_memory_allocator(void *(*malloc_func)(size_t),
				void (*free_func)(void *));

#ifdef __cplusplus
}
#endif

#endif /* LIBDEFLATE_H */

#!/bin/bash
# Runs the repository's own test suite with the verification guard OFF (no --cfg bigtools_verif).
cd /repo && unset RUSTFLAGS && exec cargo test --workspace --no-fail-fast --offline

//! tfbshuttle: the real `bigtools/src/utils/file/tempfilebuffer.rs` compiled against shuttle's
//! Mutex/Condvar (cfg `bigtools_verif_shuttle` switches its imports to `crate::verif_shuttle_sync`),
//! exercised by a producer thread and a consumer thread under seeded random / PCT schedules.
//!
//! usage: tfbshuttle --seed S --iters N --scheduler random|pct [--replay <encoded schedule>]
//! prints `OK iters=.. ` or `FAIL schedule=<encoded> msg=<panic message>`; exit 0 / 1.

use std::collections::BTreeMap;
use std::io::Write;
use std::sync::Mutex as StdMutex;

#[path = "../../.repo/bigtools/src/utils/file/tempfilebuffer.rs"]
#[allow(dead_code)]
mod tempfilebuffer;

/// What `tempfilebuffer.rs` imports under `cfg(bigtools_verif_shuttle)`.
pub mod verif_shuttle_sync {
    pub use shuttle::sync::{Arc, Condvar, Mutex};

    /// `crossbeam_utils::atomic::AtomicCell` modelled as a linearizable cell with a scheduling point.
    pub struct AtomicCell<T>(shuttle::sync::Mutex<T>);
    impl<T> AtomicCell<T> {
        pub fn new(v: T) -> Self {
            AtomicCell(shuttle::sync::Mutex::new(v))
        }
        pub fn swap(&self, v: T) -> T {
            std::mem::replace(&mut *self.0.lock().unwrap(), v)
        }
    }
}

/// What `tempfilebuffer.rs` calls under `cfg(bigtools_verif)`.
pub mod verif {
    use super::*;
    pub static PROBES: StdMutex<BTreeMap<&'static str, u64>> = StdMutex::new(BTreeMap::new());
    pub fn sync_point(_site: &'static str) {}
    pub fn probe(site: &'static str) {
        let mut p = PROBES.lock().unwrap_or_else(|e| e.into_inner());
        *p.entry(site).or_insert(0) += 1;
    }
}

use tempfilebuffer::{TempFileBuffer, TempFileBufferWriter};

#[derive(Clone, Default)]
struct Dest {
    data: std::sync::Arc<StdMutex<Vec<u8>>>,
    max_chunk: usize,
}

impl Write for Dest {
    fn write(&mut self, buf: &[u8]) -> std::io::Result<usize> {
        let n = if self.max_chunk > 0 { buf.len().min(self.max_chunk) } else { buf.len() };
        self.data.lock().unwrap_or_else(|e| e.into_inner()).extend_from_slice(&buf[..n]);
        Ok(n)
    }
    fn flush(&mut self) -> std::io::Result<()> {
        Ok(())
    }
}

fn byte_at(i: u64) -> u8 {
    let mut z = (i ^ 0x5eed).wrapping_mul(0xFF51_AFD7_ED55_8CCD);
    z ^= z >> 33;
    (z & 0xff) as u8
}

static STATS: StdMutex<(u64, u64, u64, u64)> = StdMutex::new((0, 0, 0, 0)); // programs 0..3 executed

fn scenario() {
    use shuttle::rand::{thread_rng, Rng};
    let mut rng = thread_rng();
    let inmemory: bool = rng.gen();
    let k: usize = rng.gen_range(0..5);
    let pool = [0usize, 1, 2, 100, 5_000, 10_000, 10_001, 12_345];
    let sizes: Vec<usize> = (0..k).map(|_| pool[rng.gen_range(0..pool.len())]).collect();
    let flush: bool = rng.gen();
    let program: u32 = rng.gen_range(0..4);
    let max_chunk = [0usize, 0, 1, 7, 4096][rng.gen_range(0..5)];
    let total: usize = sizes.iter().sum();

    let (mut buf, writer): (TempFileBuffer<Dest>, TempFileBufferWriter<Dest>) = TempFileBuffer::new(inmemory);
    let dest = Dest {
        data: Default::default(),
        max_chunk,
    };
    let view = dest.data.clone();
    let producer = shuttle::thread::spawn(move || {
        let mut w = writer;
        let mut g = 0u64;
        for s in sizes {
            let data: Vec<u8> = (0..s as u64).map(|i| byte_at(g + i)).collect();
            w.write_all(&data).expect("producer write");
            g += s as u64;
            if flush {
                w.flush().expect("producer flush");
            }
        }
        drop(w);
    });
    {
        let mut s = STATS.lock().unwrap_or_else(|e| e.into_inner());
        match program {
            0 => s.0 += 1,
            1 => s.1 += 1,
            2 => s.2 += 1,
            _ => s.3 += 1,
        }
    }
    let mut producer = Some(producer);
    match program {
        0 => {
            buf.switch(dest);
            let _d = buf.await_real_file();
        }
        1 => {
            let n = buf.len().expect("len");
            assert_eq!(n, total as u64, "len() must equal the number of bytes written");
            let mut d = dest;
            buf.expect_closed_write(&mut d).expect("expect_closed_write");
        }
        2 => {
            buf.switch(dest);
            while !buf.is_real_file_ready() {
                shuttle::thread::yield_now();
            }
            let _d = buf.await_real_file();
        }
        _ => {
            producer.take().unwrap().join().expect("producer panicked");
            assert!(buf.is_real_file_ready(), "producer done but buffer not ready");
            buf.switch(dest);
            let _d = buf.await_real_file();
        }
    }
    if let Some(p) = producer.take() {
        // the waiting call returned, so the producer must be done
        p.join().expect("producer panicked");
    }
    let got = view.lock().unwrap_or_else(|e| e.into_inner());
    assert_eq!(got.len(), total, "destination length");
    for (i, b) in got.iter().enumerate() {
        assert_eq!(*b, byte_at(i as u64), "destination differs from the written stream at offset {}", i);
    }
}

fn arg(args: &[String], name: &str) -> Option<String> {
    args.iter().position(|a| a == name).and_then(|i| args.get(i + 1).cloned())
}

fn main() {
    let args: Vec<String> = std::env::args().skip(1).collect();
    let seed: u64 = arg(&args, "--seed").and_then(|s| s.parse().ok()).unwrap_or(1);
    let iters: usize = arg(&args, "--iters").and_then(|s| s.parse().ok()).unwrap_or(1000);
    let sched = arg(&args, "--scheduler").unwrap_or_else(|| "random".into());
    let replay = match arg(&args, "--replay-file") {
        Some(f) => std::fs::read_to_string(f).ok().map(|s| s.trim().to_string()),
        None => arg(&args, "--replay"),
    };
    // silence the default panic output; shuttle installs its own hook on top
    std::panic::set_hook(Box::new(|_| {}));
    let mut attempt = 0u64;
    loop {
        let dir = tempfile::tempdir().expect("tempdir");
        let mut config = shuttle::Config::new();
        config.failure_persistence = shuttle::FailurePersistence::File(Some(dir.path().to_path_buf()));
        config.max_steps = shuttle::MaxSteps::FailAfter(200_000);
        let (sched, replay) = (sched.clone(), replay.clone());
        let seed = seed.wrapping_add(attempt);
        let res = std::panic::catch_unwind(move || {
            if let Some(s) = replay {
                let sch = shuttle::scheduler::ReplayScheduler::new_from_encoded(&s);
                shuttle::Runner::new(sch, config).run(scenario)
            } else if sched == "pct" {
                let sch = shuttle::scheduler::PctScheduler::new_from_seed(seed, 3, iters);
                shuttle::Runner::new(sch, config).run(scenario)
            } else if sched == "nondet" {
                let sch = shuttle::scheduler::UncontrolledNondeterminismCheckScheduler::new(
                    shuttle::scheduler::RandomScheduler::new_from_seed(seed, iters),
                );
                shuttle::Runner::new(sch, config).run(scenario)
            } else {
                let sch = shuttle::scheduler::RandomScheduler::new_from_seed(seed, iters);
                shuttle::Runner::new(sch, config).run(scenario)
            }
        });
        match res {
            Ok(n) => {
                for (k, v) in verif::PROBES.lock().unwrap_or_else(|e| e.into_inner()).iter() {
                    println!("PROBE {} {}", k, v);
                }
                let s = STATS.lock().unwrap_or_else(|e| e.into_inner());
                println!(
                    "OK iters={} prog_switch_await={} prog_len_copy={} prog_switch_poll={} prog_late_switch={}",
                    n, s.0, s.1, s.2, s.3
                );
                return;
            }
            Err(p) => {
                let msg = if let Some(s) = p.downcast_ref::<&str>() {
                    s.to_string()
                } else if let Some(s) = p.downcast_ref::<String>() {
                    s.clone()
                } else {
                    "<panic>".into()
                };
                if msg.contains("did not exercise any concurrency") && attempt < 8 {
                    // PCT bootstraps its step bound from a first oldest-task-first run; a first scenario without
                    // any scheduling choice makes it give up. That says nothing about the code under test: reseed.
                    attempt += 1;
                    continue;
                }
                let schedule = std::fs::read_to_string(dir.path().join("schedule000.txt")).unwrap_or_default();
                println!(
                    "FAIL schedule={} msg={}",
                    schedule.trim().replace(char::is_whitespace, ""),
                    msg.replace('\n', " ")
                );
                std::process::exit(1);
            }
        }
    }
}
